#!/bin/bash
# Reach measure: line coverage of /repo/gpytorch under the simulation machines (serial, in-process, N histories each).
# usage: tools/reach_coverage.sh [N]   -> prints per-file coverage of the files the properties are anchored in
# Scratch data goes to /tmp/cov (removed afterwards); nothing registered in MANIFEST depends on it.
N=${1:-250}
export OMP_NUM_THREADS=1 MKL_NUM_THREADS=1 PYTHONHASHSEED=0 PYTHONWARNINGS=ignore
mkdir -p /tmp/cov
for m in c03 c03v c04 c04l c16 c17 c18 c18m c18l c20; do
  ( /venv/bin/python -m coverage run --branch --source=/repo/gpytorch --data-file=/tmp/cov/.cov.$m /verif/tools/run_serial.py $m 0 $N quick > /tmp/cov/$m.log 2>&1 ) &
done
wait
/venv/bin/python -m coverage combine --data-file=/tmp/cov/.coverage /tmp/cov/.cov.* > /dev/null
/venv/bin/python -m coverage report --data-file=/tmp/cov/.coverage --skip-empty --show-missing \
  --include='*/models/exact_gp.py,*/models/exact_prediction_strategies.py,*/gpytorch/module.py,*/utils/memoize.py,*/variational/*.py,*/kernels/inducing_point_kernel.py,*/kernels/grid_kernel.py,*/kernels/grid_interpolation_kernel.py,*/gpytorch/settings.py,*/beta_features.py,*/constraints/constraints.py,*/priors/*.py,*/likelihoods/gaussian_likelihood.py,*/likelihoods/multitask_gaussian_likelihood.py,*/likelihoods/noise_models.py,*/mlls/exact_marginal_log_likelihood.py,*/mlls/_approximate_mll.py,*/models/model_list.py,*/models/approximate_gp.py'
