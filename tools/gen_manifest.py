#!/usr/bin/env python3
"""Regenerates /verif/MANIFEST.json (kept in one place so the claimed / not-applicable lists stay consistent)."""
import json, os

ROOT = os.path.dirname(os.path.dirname(os.path.abspath(__file__)))
TECH = "deterministic simulation with fault injection: "
CLAIMED = {
    "C03": dict(
        text="seeded search over histories of public operations, settings bundles and injected failures (rejected set_train_data, failing strict load_state_dict, failing user modules at the k-th call, failing fantasy creation) on a live exact or variational GP; every prediction is compared with a freshly constructed model holding the same visible state. A clean batch is evidence, not proof.",
        ref="DESIGN.md 4.1",
        note="trusts: the fresh-instance oracle runs the same gpytorch code (an error common to live and fresh model is invisible); tolerance regimes of DESIGN.md section 6; CPU float64 only",
        tech=TECH + "seeded operation/fault histories vs fresh-instance reference",
    ),
    "C04": dict(
        text="seeded search over histories on a tree of models (root, fantasies, fantasies of fantasies): predictions under settings bundles, fantasy creation in four batch patterns, failing creations (bad shapes, missing noise, failing user modules, failing deepcopy); fantasy predictions and carried caches are compared with an exact GP built from scratch on independently concatenated data, and the source is compared bit-for-bit with a snapshot taken before every creation, successful or failed.",
        ref="DESIGN.md 4.2",
        note="trusts: from-scratch reference is the same gpytorch code, with per-model hyper-parameters tracked by the harness; tolerance 1e-6 (1e-4 KISS-GP/WISKI, 1e-3 Lanczos regime); creations that raise return nothing and are only counted",
        tech=TECH + "seeded fantasy-tree histories with failing creations vs from-scratch reference and source snapshots",
    ),
    "C16": dict(
        text="observation loss is the injected fault: seeded histories of set-targets(NaN pattern), predict(policy), mll / expected_log_prob / log_marginal(policy), mode switches, optimiser steps and policy switches without cache reset, compared with a dense Gaussian conditional on the observed subset of the model's own prior and noise (guarded by the real code on the deleted data).",
        ref="DESIGN.md 4.3",
        note="trusts: the 40-line dense reference in sim/m_c16.py and torch.linalg (default, RFF, multitask families; tolerance 1e-6 widened with cond(K_oo+S_oo)) and, for SGPR / KISS-GP, the real model of the same recipe built on the data with the NaN observations deleted; Gaussian, fixed-noise and multitask Gaussian likelihoods, exact GPs",
        tech=TECH + "NaN-loss injection into the target stream, seeded policy/cache histories vs dense deletion reference",
    ),
    "C17": dict(
        text="history clauses only: seeded sequences of set / rejected set / initialize / adversarial optimiser steps / constraint replacement / sample_from_prior / load_state_dict (good and failing) / dtype casts / pickle on every module class that registers a constraint, checked after every step against a map parameter -> last accepted value and a bounds table.",
        ref="DESIGN.md 4.4",
        note="the input-quantified clauses of C17 (monotonicity/bijectivity over the whole float range, prior densities against reference densities) are pure functions and are only sampled at the raw values the histories visit",
        tech=TECH + "seeded setter/step/rejected-assignment histories vs last-accepted-value reference model",
    ),
    "C18": dict(
        text="crash/restart simulation: a live model is driven by a seeded history; durable snapshots (state_dict via torch.save bytes, pickle, deepcopy) are taken at arbitrary steps, a restored object is built at an arbitrary later step (fresh or dirty target, double restore, failed strict load then correct load) and then driven in lock-step with the original; every observation (prior, predictive distribution, objective, bounds, flags) must agree.",
        ref="DESIGN.md 4.5",
        note="trusts: 'same architecture' = same recipe constructor arguments; no byte-level corruption of torch/pickle formats is injected (not this repository's format)",
        tech=TECH + "seeded crash/restore points with lock-step continuation of original and restored objects",
    ),
    "C20": dict(
        text="seeded search over well-nested programs of real with-statements over all exported settings classes with exceptions (Exception and BaseException) at block boundaries, raising constructors and failing library calls, checked after every interpreter step against a stack model over the documented defaults.",
        ref="DESIGN.md 4.6",
        note="trusts: the table of documented defaults in sim/m_c20.py; context-manager objects are constructed inline at the with statement or ahead of it (stored, entered later, entered twice); single thread",
        tech=TECH + "seeded with-block programs with injected exceptions vs stack reference model",
    ),
}
NA = {
    "C01": "closed-form posterior per (data, hyper-parameters, settings) is a pure function of its arguments: no history, schedule, clock or fault for a simulator to own",
    "C02": "MLL / LOO value and gradient per (data, model) is a pure function; the stochastic-path clause is a statistical tolerance, not a schedule",
    "C05": "kernel value equals documented formula: pure function of (x1, x2, parameters)",
    "C06": "agreement of diag / transpose / lazy indexing: pure function of (kernel, inputs, index expression)",
    "C07": "PSD-ness and monotone uncertainty per input geometry: pure function of inputs; no operation order or failure in the statement",
    "C08": "batch element b equals replica b: pure function of (parameters, data, b)",
    "C09": "structured kernels/strategies equal their dense meaning: pure function of (data, configuration)",
    "C10": "MultivariateNormal methods equal their definitions: pure functions; sample-moment convergence is a statistical limit, not an interleaving",
    "C11": "multitask MVN layout/index identities: pure functions of (mean, covariance, index)",
    "C12": "Gaussian-family likelihoods add the specified noise: pure function of (distribution, parameters, call-time arguments)",
    "C13": "quadrature exactness and Bernoulli marginal: pure functions of (m, v, y, node count)",
    "C14": "variational q(f) and KL closed forms: pure function of (inducing set, variational parameters, inputs)",
    "C15": "ELBO definition and bound: pure function of (data, q(u), beta, N); the one-NGD-step clause is a single deterministic function application",
    "C19": "hand-written backward equals true derivative: pure function of (inputs, upstream gradient)",
}
PENDING = "claimed by design (see DESIGN.md section 4); its machine is not committed yet in this round"


def main():
    import importlib.util
    have = [p for p in sorted(CLAIMED) if os.path.exists(os.path.join(ROOT, "sim", "m_%s.py" % p.lower()))]
    checks = []
    for p in have:
        c = CLAIMED[p]
        checks.append({
            "property_id": p,
            "quick_cmd": "timeout 900 /verif/bin/vsim check %s --tier quick" % p,
            "thorough_cmd": "timeout 7000 /verif/bin/vsim check %s --tier thorough" % p,
            "evidence_file": "/verif/evidence/%s.json" % p,
            "replay_cmd_template": "/verif/bin/vsim replay {path}",
            "engine": "vsim",
            "level_claimed": {"category": "exploration", "text": c["text"], "design_ref": c["ref"]},
            "level_note": c["note"],
            "technique": c["tech"],
        })
    na = [{"property_id": p, "reason": r} for p, r in sorted(NA.items())]
    na += [{"property_id": p, "reason": PENDING} for p in sorted(CLAIMED) if p not in have]
    na.sort(key=lambda e: e["property_id"])
    man = {
        "version": 1,
        "setup_cmd": "/venv/bin/python -c \"import gpytorch, torch, linear_operator, hypothesis\"",
        "hooks": {
            "guard": "GPYTORCH_VERIF",
            "enable": "no hook exists in /repo: every seam used (user-supplied mean/kernel/forward modules, the public API, in-memory files, the torch RNG) is already there; GPYTORCH_VERIF=1 is exported by /verif/bin/vsim only so that harness-side wrappers can tell they run under the simulator",
            "baseline_off_cmd": "cd /repo && /venv/bin/python -m pytest -ra -q -p no:cacheprovider --timeout=900 --continue-on-collection-errors",
            "source_commits": [],
            "add_only": True,
        },
        "engines": [{
            "name": "vsim", "path": "/verif/bin/vsim", "serves_properties": have,
            "kind_free_text": "deterministic simulation: seeded search over operation/settings/fault histories of one or more model objects against reference models, ddmin minimisation, JSON replay files re-executed in a fresh interpreter",
        }],
        "checks": checks,
        "not_applicable": na,
        "notes": "Technique: deterministic simulation with fault injection. gpytorch is single-threaded and has no clock, network or disk of its own; the simulated system is a family of long-lived model objects plus the process-global settings table, the schedule is the order of public operations, and the faults are failing/torn public operations, lost observations and failing user-supplied modules. Exit codes of every check: 0 held (KNOWN-FINDING lines allowed), 1 VIOLATION with replay file, 2 harness error. See DESIGN.md.",
    }
    with open(os.path.join(ROOT, "MANIFEST.json"), "w") as f:
        json.dump(man, f, indent=1)
    print("claimed:", have)


if __name__ == "__main__":
    main()
