#!/usr/bin/env python3
"""Sensitivity self-test: apply a patch to a scratch worktree of /repo (outside /repo and /verif), run one
property's check against it via PYTHONPATH, report the exit code, remove the worktree.

usage: mutant_run.py <patch.diff> <PROPERTY> [--tier quick] [--runs N] [--keep]
The registered evidence and replay files are not touched (VSIM_EVIDENCE_DIR / VSIM_REPLAY_DIR point to scratch)."""
import argparse, os, shutil, subprocess, sys, tempfile, time

ap = argparse.ArgumentParser()
ap.add_argument("patch")
ap.add_argument("property")
ap.add_argument("--tier", default="quick")
ap.add_argument("--runs", default="0")
ap.add_argument("--seed", default="0")
ap.add_argument("--expect", type=int, default=1)
ap.add_argument("--base", default="HEAD", help="commit of /repo the patch applies to (default: HEAD + uncommitted edits)")
a = ap.parse_args()
scratch = tempfile.mkdtemp(prefix="vsim_mut_", dir="/tmp")
wt = os.path.join(scratch, "repo")
try:
    subprocess.run(["git", "-C", "/repo", "worktree", "add", "-q", "--detach", wt, a.base], check=True)
    # carry uncommitted edits of /repo's working tree as well (checks must reflect the current tree)
    diff = subprocess.run(["git", "-C", "/repo", "diff", "HEAD"], capture_output=True, text=True).stdout if a.base == "HEAD" else ""
    if diff.strip():
        subprocess.run(["git", "-C", wt, "apply"], input=diff, text=True, check=True)
    r = subprocess.run(["git", "-C", wt, "apply", "--whitespace=nowarn", os.path.abspath(a.patch)])
    if r.returncode != 0:
        print("MUTANT patch does not apply:", a.patch)
        sys.exit(3)
    env = dict(os.environ)
    env["PYTHONPATH"] = wt
    env["VSIM_EVIDENCE_DIR"] = os.path.join(scratch, "evidence")
    env["VSIM_REPLAY_DIR"] = os.path.join(scratch, "replays")
    env["VERIF_SEED"] = a.seed
    cmd = ["/verif/bin/vsim", "check", a.property, "--tier", a.tier, "--no-determinism"]
    if a.runs != "0":
        cmd += ["--runs", a.runs]
    t0 = time.time()
    p = subprocess.run(cmd, env=env, capture_output=True, text=True)
    out = p.stdout
    keep = [ln for ln in out.splitlines() if ln.startswith(("violation ", "VIOLATION", "KNOWN-FINDING", "HARNESS", a.property + " tier"))]
    print("\n".join(ln[:400] for ln in keep[:12]))
    verdict = "DETECTED" if p.returncode == 1 else ("MISSED" if p.returncode == 0 else "HARNESS-ERROR")
    print("MUTANT %s property=%s exit=%d %s (%.0fs)" % (os.path.basename(a.patch), a.property, p.returncode, verdict, time.time() - t0))
    sys.exit(0 if p.returncode == a.expect else 1)
finally:
    subprocess.run(["git", "-C", "/repo", "worktree", "remove", "--force", wt], capture_output=True)
    shutil.rmtree(scratch, ignore_errors=True)
