"""Debug helper: run indices [a,b) of one machine serially in-process and print distinct violation classes and counters.
usage: /venv/bin/python tools/run_serial.py <machine> <first> <last>"""
import sys, warnings, json, random, collections
sys.path.insert(0,'/verif'); warnings.filterwarnings('ignore')
import torch
torch.set_num_threads(1)
from sim import core
m = core.get_machine(sys.argv[1]); tier=(sys.argv[4] if len(sys.argv)>4 else 'quick')
agg=collections.Counter(); nviol=0; seen={}
for idx in range(int(sys.argv[2]), int(sys.argv[3])):
    h,out = core.run_one(m, tier, 0, idx)
    if out.harness_error:
        print("HARNESS", idx, out.harness_error[-1200:]); break
    for v in out.violations:
        key=(v['inv'], json.dumps(v['cls'],sort_keys=True))
        if key not in seen:
            seen[key]=(idx, v['detail'][:300]); 
        nviol+=1
    agg.update(out.stats)
print("violations", nviol)
for k,(idx,d) in seen.items(): print(idx, k[0], k[1][:200], '::', d)
print({k:v for k,v in agg.items() if k.startswith(('rejected','probe','fault','skipped'))})
