#!/bin/bash
# Every "fix:" commit of /repo reverted one at a time (mutants_revert/revert_<finding>_<commit>.<PROPERTY>.patch): the
# property's check must report the violation again - a fixed entry of known_findings.json suppresses nothing.
cd /verif
for f in mutants_revert/${1:-*}.patch; do
  prop=$(basename "$f" | sed -E 's/.*\.(C[0-9]+)\.patch/\1/')
  VSIM_WORKERS=${VSIM_WORKERS:-8} timeout 1500 python3 tools/mutant_run.py "$f" "$prop" 2>&1 | grep "^MUTANT\|HARNESS"
done
