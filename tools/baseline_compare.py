#!/usr/bin/env python3
"""Compare a junit xml produced by the baseline command with /root/.vp/BASELINE.json stable_pass."""
import json, sys, xml.etree.ElementTree as ET
base = json.load(open("/root/.vp/BASELINE.json"))
stable = set(base["stable_pass"])
root = ET.parse(sys.argv[1]).getroot()
passed, failed = set(), set()
for tc in root.iter("testcase"):
    name = tc.get("classname") + "::" + tc.get("name")
    bad = any(ch.tag in ("failure", "error") for ch in tc)
    skipped = any(ch.tag == "skipped" for ch in tc)
    if bad: failed.add(name)
    elif not skipped: passed.add(name)
missing = sorted(stable - passed)
print("stable_pass=%d passed_now=%d failed_now=%d stable_not_passing=%d" % (len(stable), len(passed), len(failed), len(missing)))
for m in missing[:30]: print("  NOT PASSING:", m)
sys.exit(1 if missing else 0)
