#!/bin/bash
# Soak: run every property's quick check over a range of batch seeds; any exit != 0 on the unchanged tree is a false alarm
# (or a new genuine finding) to triage.  usage: tools/soak.sh FIRST LAST [PROPS...]
# Evidence/replays go to a scratch dir so the registered files are not overwritten.
first=${1:-1}; last=${2:-20}; shift; shift
props=${@:-C03 C04 C16 C17 C18 C20}
export VSIM_EVIDENCE_DIR=${VSIM_EVIDENCE_DIR:-$PWD/soak_out/evidence} VSIM_REPLAY_DIR=${VSIM_REPLAY_DIR:-$PWD/soak_out/replays}
mkdir -p "$VSIM_EVIDENCE_DIR" "$VSIM_REPLAY_DIR"
for s in $(seq $first $last); do
  for p in $props; do
    out=$(VERIF_SEED=$s timeout 1800 bin/vsim check $p --tier quick --no-determinism 2>&1)
    rc=$?
    echo "seed=$s $p rc=$rc $(echo "$out" | grep "^$p tier" | cut -c1-160)"
    if [ $rc -ne 0 ]; then echo "$out" | grep -v "^ [0-9 ][0-9]:" | grep "^violation\|^VIOLATION\|HARNESS" | cut -c1-500 | head -8; fi
  done
done
