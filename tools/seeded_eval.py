#!/usr/bin/env python3
"""Confirm a sub-agent's seeded change and run my check against it.
usage: seeded_eval.py <tag> <PROPERTY> [--runs N] [--tier quick]
 - copies /tmp/wt/<tag>/patch_<tag>.diff and demo_<tag>.py to /verif/seeded/<tag>/ (first time)
 - in a scratch worktree of /repo HEAD: demo must exit 0 without the patch and non-zero with it
 - runs the property's check against the patched scratch tree (tools/mutant_run.py)
 - writes/updates /verif/seeded/<tag>/meta.json"""
import argparse, json, os, shutil, subprocess, sys, tempfile, time

ap = argparse.ArgumentParser()
ap.add_argument("tag"); ap.add_argument("property")
ap.add_argument("--runs", default="0"); ap.add_argument("--tier", default="quick")
ap.add_argument("--needs", default=""); ap.add_argument("--skip-demo", action="store_true")
ap.add_argument("--base", default="")
ap.add_argument("--src", default="")
a = ap.parse_args()
d = "/verif/seeded/%s" % a.tag
os.makedirs(d, exist_ok=True)
src = a.src or "/tmp/wt/%s" % a.tag
for fn, dst in (("patch_%s.diff" % a.tag, "patch.diff"), ("demo_%s.py" % a.tag, "demo.py")):
    if not os.path.exists(os.path.join(d, dst)):
        shutil.copy(os.path.join(src, fn), os.path.join(d, dst))
meta_p = os.path.join(d, "meta.json")
meta = json.load(open(meta_p)) if os.path.exists(meta_p) else {}
meta.update({"id": a.tag, "property": a.property})
base = a.base or meta.get("base_commit") or "HEAD"
if a.needs:
    meta["needs_to_manifest"] = a.needs
if a.base:
    meta["base_commit"] = a.base
env = dict(os.environ, OMP_NUM_THREADS="1", MKL_NUM_THREADS="1", PYTHONWARNINGS="ignore")
if not a.skip_demo:
    scratch = tempfile.mkdtemp(prefix="seed_", dir="/tmp")
    wt = os.path.join(scratch, "repo")
    try:
        subprocess.run(["git", "-C", "/repo", "worktree", "add", "-q", "--detach", wt, base], check=True)
        shutil.copy(os.path.join(d, "demo.py"), os.path.join(wt, "demo.py"))
        e = dict(env, PYTHONPATH=wt)
        r0 = subprocess.run(["/venv/bin/python", "demo.py"], cwd=wt, env=e, capture_output=True, text=True, timeout=1800)
        ap_ = subprocess.run(["git", "-C", wt, "apply", "--whitespace=nowarn", os.path.join(d, "patch.diff")], capture_output=True, text=True)
        if ap_.returncode != 0:
            print("patch does not apply to /repo HEAD:", ap_.stderr[:500]); sys.exit(3)
        r1 = subprocess.run(["/venv/bin/python", "demo.py"], cwd=wt, env=e, capture_output=True, text=True, timeout=1800)
        meta["demo_without_change_exit"] = r0.returncode
        meta["demo_with_change_exit"] = r1.returncode
        meta["demo_confirmed"] = (r0.returncode == 0 and r1.returncode != 0)
        print("demo without change: exit %d; with change: exit %d -> %s" % (r0.returncode, r1.returncode, "CONFIRMED" if meta["demo_confirmed"] else "NOT CONFIRMED"))
        if not meta["demo_confirmed"]:
            print((r0.stdout + r0.stderr)[-800:]); print("----"); print((r1.stdout + r1.stderr)[-800:])
    finally:
        subprocess.run(["git", "-C", "/repo", "worktree", "remove", "--force", wt], capture_output=True)
        shutil.rmtree(scratch, ignore_errors=True)
cmd = ["python3", "/verif/tools/mutant_run.py", os.path.join(d, "patch.diff"), a.property, "--tier", a.tier, "--base", base]
if a.runs != "0":
    cmd += ["--runs", a.runs]
t0 = time.time()
p = subprocess.run(cmd, capture_output=True, text=True)
print(p.stdout[-3000:])
line = [ln for ln in p.stdout.splitlines() if ln.startswith("MUTANT")]
verdict = line[-1].split()[-2] if line else "?"
runs = meta.setdefault("check_runs", [])
runs.append({"cmd": " ".join(cmd[1:]), "verdict": verdict, "violations": [ln[:300] for ln in p.stdout.splitlines() if ln.startswith("violation ")][:4], "wall_s": round(time.time() - t0), "verif_commit": subprocess.run(["git", "-C", "/verif", "rev-parse", "--short", "HEAD"], capture_output=True, text=True).stdout.strip()})
meta["detected_by_check"] = verdict == "DETECTED"
json.dump(meta, open(meta_p, "w"), indent=1)
