#!/bin/bash
# Runs every property's thorough check once (scratch evidence / replay dirs); prints the summary line and any alarm.
export VSIM_EVIDENCE_DIR=${VSIM_EVIDENCE_DIR:-$PWD/th_out/evidence} VSIM_REPLAY_DIR=${VSIM_REPLAY_DIR:-$PWD/th_out/replays}
for p in ${@:-C20 C17 C16 C04 C03 C18}; do
  out=$(timeout 7000 bin/vsim check $p --tier thorough 2>&1); rc=$?
  mkdir -p "$PWD/th_out"; echo "$out" | grep -v "^ [0-9 ][0-9]:" | tail -60 > "$PWD/th_out/$p.tail.log"
  echo "THOROUGH $p rc=$rc $(echo "$out" | grep "^$p tier" | cut -c1-200)"
  echo "$out" | grep -v "^ [0-9 ][0-9]:" | grep "^violation\|^VIOLATION\|HARNESS\|PROBE-ZERO\|Traceback\|Error" | cut -c1-500 | head -12
done
