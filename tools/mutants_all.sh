#!/bin/bash
# Run every patch in /verif/mutants (named <name>.<PROPERTY>.patch) through tools/mutant_run.py; print a table.
# usage: tools/mutants_all.sh [pattern]
cd /verif
for f in mutants/${1:-*}.patch; do
  prop=$(basename "$f" | sed -E 's/.*\.(C[0-9]+)\.patch/\1/')
  VSIM_WORKERS=${VSIM_WORKERS:-8} timeout 1500 python3 tools/mutant_run.py "$f" "$prop" 2>&1 | grep "^MUTANT\|HARNESS" 
done
