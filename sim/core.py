"""Shared simulator machinery: seeds, event log, outcome, batch runner, minimiser,
replay, known findings and evidence.  See DESIGN.md section 3.

A *machine* is a module exposing

    PROPERTY   : str                       property id, e.g. "C03"
    NAME       : str                       machine name
    generate(rng, tier, index) -> dict     PRNG-driven; returns a JSON-serialisable history
    execute(history) -> Outcome            pure function of the history and the code under test
    render(history) -> str                 human readable rendering (python-like)
    RULE       : str                       what makes a history non-trivial / distinct
    budget(tier) -> dict(runs=..., wall=...)
    simplify(history) -> iterator of candidate histories (optional)
"""
from __future__ import annotations

import collections
import hashlib
import json
import os
import random
import struct
import sys
import time
import traceback
import zlib

MASK = (1 << 64) - 1
VERIF_ROOT = os.path.dirname(os.path.dirname(os.path.abspath(__file__)))


# --------------------------------------------------------------------------- seeds


def splitmix64(x: int) -> int:
    x = (x + 0x9E3779B97F4A7C15) & MASK
    z = x
    z = ((z ^ (z >> 30)) * 0xBF58476D1CE4E5B9) & MASK
    z = ((z ^ (z >> 27)) * 0x94D049BB133111EB) & MASK
    return z ^ (z >> 31)


def derive_seed(batch_seed: int, tag: str, index: int) -> int:
    h = zlib.crc32(tag.encode())
    x = splitmix64((batch_seed & MASK) ^ (h << 17))
    x = splitmix64(x ^ (index & MASK))
    return x & ((1 << 53) - 1)  # fits a JSON double exactly


# --------------------------------------------------------------------------- event log / digest


class EventLog:
    """SHA-256 over everything a run observes.  Never reads a clock, never draws randomness."""

    def __init__(self):
        self._h = hashlib.sha256()
        self.n = 0

    def add(self, tag: str, value=None):
        self.n += 1
        self._h.update(tag.encode())
        self._h.update(b"\0")
        self._feed(value)

    def _feed(self, value):
        import torch

        if value is None:
            self._h.update(b"N")
        elif isinstance(value, torch.Tensor):
            t = value.detach().cpu().contiguous()
            self._h.update(str(t.dtype).encode())
            self._h.update(str(tuple(t.shape)).encode())
            if t.dtype == torch.bool:
                t = t.to(torch.uint8)
            self._h.update(t.numpy().tobytes())
        elif isinstance(value, float):
            self._h.update(struct.pack("<d", value))
        elif isinstance(value, (bool, int, str)):
            self._h.update(repr(value).encode())
        elif isinstance(value, (list, tuple)):
            self._h.update(b"[")
            for v in value:
                self._feed(v)
            self._h.update(b"]")
        elif isinstance(value, dict):
            self._h.update(b"{")
            for k in sorted(value):
                self._h.update(str(k).encode())
                self._feed(value[k])
            self._h.update(b"}")
        else:
            self._h.update(repr(value).encode())

    def hexdigest(self) -> str:
        return self._h.hexdigest()


# --------------------------------------------------------------------------- outcome


class HarnessError(Exception):
    """Raised by harness/oracle code when *it* is broken (never a VIOLATION)."""


class Outcome:
    __slots__ = (
        "violations",
        "stats",
        "steps",
        "sketch",
        "nontrivial",
        "transitions",
        "log",
        "maxdiff",
        "maxdiff_by",
        "harness_error",
    )

    def __init__(self):
        self.violations = []  # list of dict(inv, step, detail, cls)
        self.stats = collections.Counter()
        self.steps = 0
        self.sketch = ""
        self.nontrivial = False
        self.transitions = set()
        self.log = EventLog()
        self.maxdiff = 0.0
        self.maxdiff_by = {}
        self.harness_error = None

    def note_diff(self, regime: str, value: float):
        """Record the largest difference that was *within* tolerance, per tolerance regime."""
        self.maxdiff = max(self.maxdiff, value)
        if value > self.maxdiff_by.get(regime, -1.0):
            self.maxdiff_by[regime] = value

    def violate(self, inv: str, step: int, detail: str, **cls):
        if len(self.violations) < 12:
            self.violations.append({"inv": inv, "step": step, "detail": detail, "cls": dict(cls)})
        self.stats["violations_raw"] += 1

    def summary(self):
        return {
            "violations": self.violations,
            "steps": self.steps,
            "sketch": self.sketch,
            "nontrivial": self.nontrivial,
            "digest": self.log.hexdigest(),
            "maxdiff": self.maxdiff,
            "harness_error": self.harness_error,
        }


# --------------------------------------------------------------------------- known findings


def load_known_findings(property_id: str):
    path = os.path.join(VERIF_ROOT, "known_findings.json")
    if not os.path.exists(path):
        return []
    with open(path) as f:
        data = json.load(f)
    return [e for e in data.get("findings", []) if e.get("property") == property_id]


def _match_value(want, got):
    if isinstance(want, dict):
        if "min" in want and not (isinstance(got, (int, float)) and got >= want["min"]):
            return False
        if "max" in want and not (isinstance(got, (int, float)) and got <= want["max"]):
            return False
        if "in" in want and got not in want["in"]:
            return False
        return True
    if isinstance(want, list):
        return got in want
    return want == got


def local_object_site(msg: str) -> str:
    """Where the unpicklable local object of a pickling error was defined: "ctor" for `<Class>.__init__.<locals>.<lambda>`
    (closures registered by a constructor), otherwise the qualified name of the defining function."""
    import re

    m = re.search(r"local object '([^']+)'", msg) or re.search(r"Can't get local object '([^']+)'", msg)
    if not m:
        return "n/a"
    q = m.group(1)
    owner = q.split(".<locals>")[0]
    return "ctor" if owner.endswith(".__init__") else owner


def match_known(violation: dict, known: list):
    """Return the id of the *known* (not fixed) finding whose signature matches this violation, else None."""
    for e in known:
        if e.get("status") != "known":
            continue
        m = e.get("match", {})
        ok = True
        for k, want in m.items():
            got = violation["inv"] if k == "inv" else violation["cls"].get(k)
            if not _match_value(want, got):
                ok = False
                break
        if ok:
            return e["id"]
    return None


def class_key(violation: dict, known: list):
    cls = violation["cls"]
    return (violation["inv"], match_known(violation, known), json.dumps(cls, sort_keys=True, default=str))


# --------------------------------------------------------------------------- worker side

_MACHINES = {}


def get_machine(name: str):
    if name not in _MACHINES:
        import importlib

        _MACHINES[name] = importlib.import_module("sim.m_" + name.lower())
    return _MACHINES[name]


def run_one(machine, tier: str, batch_seed: int, index: int):
    run_seed = derive_seed(batch_seed, machine.PROPERTY + "/" + machine.NAME + "/" + tier, index)
    rng = random.Random(run_seed)
    history = machine.generate(rng, tier, index)
    history.setdefault("header", {})
    history["header"].update(
        {"property": machine.PROPERTY, "machine": machine.NAME, "run_seed": run_seed, "tier": tier, "index": index}
    )
    out = safe_execute(machine, history)
    return history, out


def safe_execute(machine, history) -> Outcome:
    try:
        return machine.execute(history)
    except BaseException as e:  # harness bug: never a VIOLATION
        if isinstance(e, (KeyboardInterrupt, SystemExit)):
            raise
        out = Outcome()
        out.harness_error = "".join(traceback.format_exception(type(e), e, e.__traceback__))[-4000:]
        return out


HISTORY_WALL_LIMIT = float(os.environ.get("VSIM_HISTORY_WALL_LIMIT", "300"))


def run_chunk(args):
    """Executed in a worker process: runs a list of indices, returns an aggregate."""
    mname, tier, batch_seed, indices, want_digest, deadline = args[:6]
    progress = args[6] if len(args) > 6 else None  # file in which this worker notes the index it is about to run
    import faulthandler

    machine = get_machine(mname)
    agg = {
        "evaluations": 0,
        "steps": 0,
        "stats": collections.Counter(),
        "sketches": set(),
        "transitions": set(),
        "violations": [],
        "digests": {},
        "maxdiff": 0.0,
        "maxdiff_by": {},
        "harness_errors": [],
        "samples": [],
        "skipped": 0,
    }
    for idx in indices:
        if deadline is not None and time.time() > deadline:
            agg["skipped"] += 1
            continue
        # step caps do not bound a slow iterative solve on a loaded machine (or a hang in native code): a history over the
        # wall limit ends this worker process; the parent (runner.run_machine_batch) reads the progress file, abandons
        # that one history (counted, never judged) and re-runs the rest of the chunk in a fresh worker
        if progress:
            with open(progress, "w") as fh:
                fh.write(str(idx))
        faulthandler.dump_traceback_later(HISTORY_WALL_LIMIT, exit=True)
        if os.environ.get("VSIM_SELFTEST_DIE_AT") == "%s:%d" % (mname, idx):
            os._exit(9)  # self-test of the runner: a worker that dies at this history (as the wall-limit exit does)
        try:
            history, out = run_one(machine, tier, batch_seed, idx)
        finally:
            faulthandler.cancel_dump_traceback_later()
        agg["evaluations"] += 1
        agg["steps"] += out.steps
        agg["stats"].update(out.stats)
        if out.nontrivial:
            agg["sketches"].add(zlib.crc32(out.sketch.encode()) | (len(out.sketch) << 32))
        agg["transitions"].update(out.transitions)
        agg["maxdiff"] = max(agg["maxdiff"], out.maxdiff)
        for rk, rv in out.maxdiff_by.items():
            agg["maxdiff_by"][rk] = max(agg["maxdiff_by"].get(rk, 0.0), rv)
        if out.harness_error:
            agg["harness_errors"].append({"index": idx, "error": out.harness_error, "history": history})
        for v in out.violations:
            if len(agg["violations"]) < 40:
                agg["violations"].append({"index": idx, "violation": v, "history": history})
        if idx in want_digest:
            agg["digests"][idx] = out.log.hexdigest()
        if len(agg["samples"]) < 1 and out.nontrivial:
            agg["samples"].append(machine.render(history))
    if progress:
        with open(progress, "w") as fh:
            fh.write("done")
    return agg


# --------------------------------------------------------------------------- minimiser


def _has_class(out: Outcome, key, known):
    for v in out.violations:
        if class_key(v, known)[:2] == key[:2] and (key[2] == "*" or _family_of(v) == key[2]):
            return v
    return None


def _family_of(v):
    return v["cls"].get("family")


def minimise(machine, history, violation, known, max_exec=400, max_wall=120.0):
    """Delta debugging over history['ops'] keeping the violation class
    (same invariant, same known-finding status, same model family)."""
    kid = match_known(violation, known)
    key = (violation["inv"], kid, _family_of(violation) if kid is None else "*")
    t0 = time.time()
    n_exec = [0]

    def test(h):
        if n_exec[0] >= max_exec or time.time() - t0 > max_wall:
            return None
        n_exec[0] += 1
        out = safe_execute(machine, h)
        if out.harness_error:
            return None
        return _has_class(out, key, known)

    def with_ops(h, ops):
        h2 = dict(h)
        h2["ops"] = ops
        return h2

    best = history
    best_v = violation
    ops = list(history.get("ops", []))
    # drop everything after the violating step first
    step = violation.get("step")
    if isinstance(step, int) and 0 <= step < len(ops) - 1:
        cand = with_ops(best, ops[: step + 1])
        v = test(cand)
        if v:
            best, best_v, ops = cand, v, ops[: step + 1]
    n = 2
    while len(ops) >= 2:
        chunk = max(1, len(ops) // n)
        reduced = False
        i = 0
        while i < len(ops):
            cand_ops = ops[:i] + ops[i + chunk :]
            if cand_ops:
                cand = with_ops(best, cand_ops)
                v = test(cand)
                if v:
                    ops, best, best_v = cand_ops, cand, v
                    reduced = True
                    continue
            i += chunk
        if not reduced:
            if chunk == 1:
                break
            n = min(len(ops), n * 2)
        else:
            n = max(2, n - 1)
        if n_exec[0] >= max_exec or time.time() - t0 > max_wall:
            break
    # argument simplification offered by the machine
    simplify = getattr(machine, "simplify", None)
    if simplify is not None:
        progress = True
        while progress and n_exec[0] < max_exec and time.time() - t0 <= max_wall:
            progress = False
            for cand in simplify(best):
                v = test(cand)
                if v:
                    best, best_v = cand, v
                    progress = True
                    break
    return best, best_v, n_exec[0]


# --------------------------------------------------------------------------- replay files


def write_replay(machine, history, violation, path):
    os.makedirs(os.path.dirname(path), exist_ok=True)
    doc = {
        "property": machine.PROPERTY,
        "machine": machine.NAME,
        "violation": violation,
        "history": history,
        "rendered": machine.render(history).split("\n"),
        "replay_cmd": "/verif/bin/vsim replay " + path,
    }
    with open(path, "w") as f:
        json.dump(doc, f, indent=1, sort_keys=True, default=str)
    return path


def replay_file(path):
    """Execute a replay file in this interpreter.  Returns (machine, outcome, doc)."""
    with open(path) as f:
        doc = json.load(f)
    machine = get_machine(doc["machine"])
    out = safe_execute(machine, doc["history"])
    return machine, out, doc


# --------------------------------------------------------------------------- misc helpers for machines


def weighted_choice(rng: random.Random, items):
    """items: list of (value, weight) in a fixed order."""
    total = sum(w for _, w in items)
    x = rng.random() * total
    acc = 0.0
    for v, w in items:
        acc += w
        if x < acc:
            return v
    return items[-1][0]


def sticky_bundles(rng, ops, p=0.3):
    """Swarm knob: with probability p every prediction of the history is made under one and the same settings bundle,
    so that caches which only exist under a particular setting are carried across the mutating operations in between."""
    if rng.random() >= p:
        return ops
    withb = [o for o in ops if o.get("bundle")]
    if not withb:
        return ops
    b = rng.choice(withb)["bundle"]
    for o in ops:
        if "bundle" in o and o.get("op") in ("predict", "fault_predict"):
            o["bundle"] = [list(x) for x in b]
    return ops


def jsonable(x):
    return json.loads(json.dumps(x, default=str))


def eprint(*a):
    print(*a, file=sys.stderr, flush=True)
