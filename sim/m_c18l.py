"""C18 (model lists) - persistence round trips of IndependentModelList (+ LikelihoodList, SumMarginalLogLikelihood):
A = crash-free reference, B = execution with crashes (state_dict into a freshly built list / pickle / deepcopy),
lock-step continuation, comparison of list predictions, the summed MLL, state_dict and sub-model structure."""
from __future__ import annotations

import copy
import io
import json
import pickle
import warnings

import gpytorch
import torch

from . import bundles, compare, core, zoo
from .m_c18 import compare_state

PROPERTY = "C18"
NAME = "c18l"
RULE = (
    "model-list machine: a case is one history on an IndependentModelList of 2-3 exact GPs: list predictions, optimiser "
    "steps on the SumMarginalLogLikelihood, per-model set_train_data, crash points (state_dict / pickle / deepcopy); "
    "non-trivial = a restore succeeded and at least one lock-step observation was compared"
)
STUBBED = ["in-memory file (io.BytesIO) as the durable medium"]
ASSUMPTIONS = ["state_dict restores go into a freshly constructed list of freshly constructed sub-models (same recipes, current training data, re-randomised parameters); tolerance 1e-6"]
EXPECTED_PROBES = {"quick": ["restored_state_dict", "restored_pickle", "restored_deepcopy", "lockstep_observation"], "thorough": ["restored_state_dict", "restored_pickle", "restored_deepcopy", "lockstep_observation"]}
TOL = 1e-6


def generate(rng, tier, index):
    k = rng.choice([2, 2, 3])
    d = rng.choice([1, 2])
    recipes = []
    for _ in range(k):
        r = zoo.gen_exact_recipe(rng, ["default"])
        r["d"] = d
        r["batch"] = []
        r.pop("active_dims", None)
        if r.get("priors") == "named":
            r["priors"] = "ctor"
        recipes.append(r)
    n_ops = rng.randint(3, 9) if tier == "quick" else rng.randint(5, 24)
    ops = []
    hows = ["state_dict", "pickle", "deepcopy"]
    ops.append({"op": "predict", "seed": rng.randrange(1 << 30), "t": 2, "fpv": rng.random() < 0.5, "grad": False})
    ops.append({"op": "crash", "how": hows[index % 3], "init_seed": rng.randrange(1 << 30), "proto": rng.choice([2, 4, 5])})
    while len(ops) < n_ops:
        c = core.weighted_choice(rng, [("predict", 4.0), ("train_steps", 2.0), ("set_train_data", 1.0), ("crash", 1.5), ("objective", 1.0), ("mode", 0.7), ("partial_load", 1.2)])
        if c == "predict":
            ops.append({"op": c, "seed": rng.randrange(1 << 30), "t": rng.randint(1, 3), "fpv": rng.random() < 0.4, "grad": rng.random() < 0.2})
        elif c == "train_steps":
            ops.append({"op": c, "k": rng.randint(1, 2), "lr": 0.1, "seed": rng.randrange(1 << 30)})
        elif c == "set_train_data":
            ops.append({"op": c, "which": rng.randrange(k), "seed": rng.randrange(1 << 30)})
        elif c == "crash":
            ops.append({"op": c, "how": rng.choice(hows), "init_seed": rng.randrange(1 << 30), "proto": rng.choice([2, 4, 5])})
        elif c == "objective":
            ops.append({"op": c, "seed": rng.randrange(1 << 30)})
        elif c == "partial_load":
            # a checkpoint of PART of the list (one sub-model, or all likelihoods through the list's `likelihood.likelihoods.i`
            # names - the same objects as `models.i.likelihood`), loaded with strict=False; a prediction follows
            ops.append({"op": c, "part": rng.choice(["likelihoods", "likelihoods", "model", "model_kernel"]), "which": rng.randrange(k), "seed": rng.randrange(1 << 30)})
            ops.append({"op": "predict", "seed": rng.randrange(1 << 30), "t": 2, "fpv": rng.random() < 0.3, "grad": False})
        else:
            ops.append({"op": "mode", "train": rng.random() < 0.5})
    ops.append({"op": "predict", "seed": rng.randrange(1 << 30), "t": 2, "fpv": False, "grad": False})
    ops.append({"op": "objective", "seed": rng.randrange(1 << 30)})
    return {"recipes": recipes, "ops": ops}


def build_list(recipes, datas=None, variant=0, seed_shift=0):
    models = []
    for j, r in enumerate(recipes):
        torch.manual_seed(r["init_seed"] + seed_shift)
        m = zoo.build_exact(r, data=None if datas is None else datas[j], variant=variant)
        zoo.randomise_parameters(m, r["init_seed"] + seed_shift)
        models.append(m)
    return gpytorch.models.IndependentModelList(*models)


def apply(ml, recipes, op, out):
    k = op["op"]
    torch.manual_seed(op.get("seed", 7))
    if k == "predict":
        ml.eval()
        ml.likelihood.eval()
        xs = [zoo.rand(op["seed"] + j, op["t"], r["d"]) * 1.2 - 0.1 for j, r in enumerate(recipes)]
        try:
            with gpytorch.settings.fast_pred_var(bool(op.get("fpv"))):
                if op.get("grad"):
                    dists = ml(*xs)
                else:
                    with torch.no_grad():
                        dists = ml(*xs)
            obs = {}
            for j, dd in enumerate(dists):
                o = compare.observe_dist(dd)
                for q, v in o.items():
                    obs["%s_%d" % (q, j)] = v
            return "ok", obs
        except Exception as e:  # noqa
            return "rejected", {"exc": type(e).__name__}
    if k in ("train_steps", "objective"):
        ml.train()
        ml.likelihood.train()
        mll = gpytorch.mlls.SumMarginalLogLikelihood(ml.likelihood, ml)
        if k == "objective":
            try:
                with torch.no_grad():
                    v = mll(ml(*ml.train_inputs), ml.train_targets)
                return "ok", {"objective": v.detach().clone()}
            except Exception as e:  # noqa
                return "rejected", {"exc": type(e).__name__}
        opt = torch.optim.Adam(ml.parameters(), lr=op["lr"])
        losses = []
        for _ in range(op["k"]):
            opt.zero_grad()
            try:
                loss = -mll(ml(*ml.train_inputs), ml.train_targets)
                loss.backward()
            except Exception as e:  # noqa
                out.stats["rejected:train_step_" + type(e).__name__] += 1
                return "rejected", {"exc": type(e).__name__}
            opt.step()
            losses.append(loss.detach().clone())
        return "ok", {"losses": torch.stack(losses)}
    if k == "set_train_data":
        j = op["which"] % len(recipes)
        m = ml.models[j]
        r = recipes[j]
        x = zoo.make_inputs(op["seed"], [], m.train_inputs[0].shape[-2], r["d"])
        y = zoo.make_targets(op["seed"] + 3, x, scale=3.0)
        m.set_train_data(x, y, strict=True)
        return "ok", {}
    if k == "mode":
        ml.train(op["train"])
        ml.likelihood.train(op["train"])
        return "ok", {}
    if k == "partial_load":
        donor = build_list(recipes, [_data_of(m) for m in ml.models], variant=0, seed_shift=op["seed"] % 9967 + 3)
        sd = donor.state_dict()
        j = op["which"] % len(recipes)
        prefix = {"likelihoods": "likelihood.likelihoods.", "model": "models.%d." % j, "model_kernel": "models.%d.covar_module." % j}[op["part"]]
        part = {kk: v.detach().clone() for kk, v in sd.items() if kk.startswith(prefix)}
        try:
            ml.load_state_dict(part, strict=False)
        except Exception as e:  # noqa
            return "rejected", {"exc": type(e).__name__}
        out.stats["probe:partial_state_dict_loaded[%s]" % op["part"]] += 1
        return "ok", {}
    raise core.HarnessError(k)


def _data_of(m):
    st = zoo.exact_state(m)
    return {"inputs": st["inputs"], "targets": st["targets"], "fixed_noise": st["fixed_noise"]}


def fresh_vs_live(out, i, ml, recipes, op, who):
    """After a load, no cache of the previous state is in effect: the next prediction equals that of a freshly built list
    holding the same state_dict and data."""
    F = build_list(recipes, [_data_of(m) for m in ml.models], variant=1, seed_shift=op["seed"] % 9949 + 5)
    F.load_state_dict(ml.state_dict())
    scratch = core.Outcome()
    sa, oa = apply(ml, recipes, op, scratch)
    sb, ob = apply(F, recipes, op, scratch)
    out.stats["oracle_comparisons"] += 1
    out.stats["probe:prediction_after_partial_load_vs_fresh"] += 1
    if sa == "ok" and sb == "ok":
        ta = {q: v for q, v in oa.items() if torch.is_tensor(v)}
        tb = {q: v for q, v in ob.items() if torch.is_tensor(v)}
        bad, mx = compare.compare_obs(ta, tb, TOL)
        if bad:
            out.violate("stale_after_load", i, "after a partial load_state_dict(strict=False), %s of the %s list differs from a freshly built list with the same state by %.3g" % (bad[0][0], who, bad[0][1]), family="modellist", how="partial_state_dict", quantity=bad[0][0].split("_")[0])


def execute(history):
    out = core.Outcome()
    from . import m_c20

    m_c20._capture_pristine()
    m_c20.reset_globals()
    cm = warnings.catch_warnings()
    cm.__enter__()
    warnings.simplefilter("ignore")
    try:
        recipes = history["recipes"]
        A = build_list(recipes)
        B = None
        how_last = None
        sketch = []
        restored = lock = False
        for i, op in enumerate(history["ops"]):
            out.steps += 1
            k = op["op"]
            out.stats["op:" + k] += 1
            tag = k
            if k == "crash":
                src = B if B is not None else A
                how = op["how"]
                cls = {"family": "modellist", "how": how}
                tag = "crash[%s,%s]" % (how, "T" if src.training else "E")
                try:
                    if how == "pickle":
                        new = pickle.loads(pickle.dumps(src, protocol=op["proto"]))
                    elif how == "deepcopy":
                        new = copy.deepcopy(src)
                    else:
                        buf = io.BytesIO()
                        torch.save(src.state_dict(), buf)
                        datas = []
                        for m in src.models:
                            st = zoo.exact_state(m)
                            datas.append({"inputs": st["inputs"], "targets": st["targets"], "fixed_noise": st["fixed_noise"]})
                        new = build_list(recipes, datas, variant=1, seed_shift=op["init_seed"] % 9973 + 1)
                        new.load_state_dict(torch.load(io.BytesIO(buf.getvalue())))
                        new.train(src.training)
                        new.likelihood.train(src.likelihood.training)
                    out.stats["fault:crash_restore_" + how] += 1
                    out.stats["probe:restored_" + how] += 1
                except Exception as e:  # noqa
                    msg = str(e)
                    kind = "non_leaf_deepcopy" if ("graph leaves" in msg or "view was created in no_grad mode" in msg) else ("local_object" if "local object" in msg or "Can't pickle" in msg else type(e).__name__)
                    out.violate("snapshot_failed", i, "%s of the model list raised %s(%s)" % (how, type(e).__name__, msg[:160]), exc_kind=kind, model_kind="modellist", defined_in=core.local_object_site(msg) if kind == "local_object" else "n/a", phase="n/a", target="n/a", **cls)
                    sketch.append(tag + "!")
                    continue
                B = new
                how_last = how
                restored = True
                # structure: the list's likelihood list refers to the sub-models' own likelihoods
                for j, m in enumerate(B.models):
                    if B.likelihood.likelihoods[j] is not m.likelihood:
                        out.violate("structure_not_carried", i, "%s: likelihood %d of the restored list is not sub-model %d's likelihood object" % (how, j, j), **cls)
                        break
                d = compare_state(A, B, TOL)
                out.stats["oracle_comparisons"] += 1
                if d:
                    out.violate("state_differs_after_restore", i, "right after the %s restore: %s" % (how, d[1]), family="modellist", how=how, key=d[0].rsplit(".", 1)[-1], phase="n/a")
            else:
                if k == "predict" and i > 0 and history["ops"][i - 1]["op"] == "partial_load":
                    fresh_vs_live(out, i, A, recipes, op, "reference")
                    if B is not None:
                        fresh_vs_live(out, i, B, recipes, op, "restored")
                sa, oa = apply(A, recipes, op, out)
                for q in sorted(oa):
                    if torch.is_tensor(oa[q]):
                        out.log.add("A%d:%s" % (i, q), oa[q])
                if B is not None:
                    sb, ob = apply(B, recipes, op, out)
                    lock = True
                    out.stats["probe:lockstep_observation"] += 1
                    out.stats["oracle_comparisons"] += 1
                    cls = {"family": "modellist", "how": how_last, "op": k}
                    if sa != sb or oa.get("exc") != ob.get("exc"):
                        out.violate("lockstep_status_differs", i, "%s: reference %s, restored (%s) %s" % (k, sa, how_last, sb), **cls)
                    else:
                        ta = {q: v for q, v in oa.items() if torch.is_tensor(v)}
                        tb = {q: v for q, v in ob.items() if torch.is_tensor(v)}
                        bad, mx = compare.compare_obs(ta, tb, TOL)
                        if bad:
                            out.violate("lockstep_observation_differs", i, "%s: %s of the restored list (%s) differs from the reference by %.3g" % (k, bad[0][0], how_last, bad[0][1]), quantity=bad[0][0].split("_")[0], **cls)
                        else:
                            out.note_diff("lockstep tol=%g" % TOL, mx)
                    d = compare_state(A, B, TOL * 10)
                    if d:
                        out.violate("lockstep_state_differs", i, "after %s: %s (restored via %s)" % (k, d[1], how_last), key=d[0].rsplit(".", 1)[-1], **cls)
            out.transitions.add("modellist|%s|B%d->%s" % ("T" if A.training else "E", int(B is not None), tag))
            sketch.append(tag)
        out.nontrivial = restored and lock
        out.sketch = "modellist:%s:%s" % ("+".join(r["lik"] for r in recipes), ">".join(sketch))
    finally:
        cm.__exit__(None, None, None)
        m_c20.reset_globals()
    return out


def render(history):
    lines = ["# C18 (model list) history; sub-model recipes:"] + ["#   " + json.dumps(r, sort_keys=True) for r in history["recipes"]]
    for i, op in enumerate(history["ops"]):
        o = dict(op)
        k = o.pop("op")
        lines.append("%2d: %s(%s)" % (i, k, ", ".join("%s=%r" % kv for kv in sorted(o.items()))))
    return "\n".join(lines)


def budget(tier):
    if tier == "quick":
        return {"runs": 400, "wall": 120, "digest_sample": 8}
    return {"runs": 20000, "wall": 1200, "digest_sample": 32}
