"""Settings bundles: the 'configurations' a prediction is made under.  A bundle is a
JSON list of [setting name, kwargs]; entering it uses real context managers."""
from __future__ import annotations

import contextlib

import gpytorch


def _cls(name):
    return getattr(gpytorch.settings, name)


@contextlib.contextmanager
def entered(bundle):
    with contextlib.ExitStack() as st:
        for name, kw in bundle:
            c = _cls(name)
            if "value" in kw and len(kw) == 1:
                st.enter_context(c(kw["value"]))
            else:
                st.enter_context(c(**kw))
        yield


# settings that keep every computation on the Cholesky path for n <= max_cholesky_size (exact regime)
def gen_bundle(rng, joint_size, allow=None, iterative=False, p_each=0.3):
    b = []

    def maybe(name, kw, p=p_each):
        if (allow is None or name in allow) and rng.random() < p:
            b.append([name, kw])

    maybe("fast_pred_var", {"state": rng.random() < 0.8, "num_probe_vectors": rng.choice([1, 2, 5])}, 0.45)
    maybe(
        "max_eager_kernel_size",
        {"value": rng.choice([0, 1, max(joint_size - 1, 0), joint_size, joint_size + 1, 512])},
        0.4,
    )
    maybe("lazily_evaluate_kernels", {"state": rng.random() < 0.5})
    maybe("detach_test_caches", {"state": rng.random() < 0.5})
    maybe("skip_posterior_variances", {"state": rng.random() < 0.7}, 0.1)
    maybe("fast_pred_samples", {"state": rng.random() < 0.7}, 0.15)
    maybe("memory_efficient", {"state": rng.random() < 0.5}, 0.15)
    maybe("use_toeplitz", {"state": rng.random() < 0.5}, 0.2)
    maybe("sgpr_diagonal_correction", {"state": rng.random() < 0.5}, 0.3)
    maybe(
        "fast_computations",
        {
            "covar_root_decomposition": rng.random() < 0.5,
            "log_prob": rng.random() < 0.5,
            "solves": rng.random() < 0.5,
        },
        0.2,
    )
    maybe("debug", {"state": rng.random() < 0.5}, 0.15)
    maybe("observation_nan_policy", {"value": rng.choice(["ignore", "mask"])}, 0.12)
    maybe("trace_mode", {"state": rng.random() < 0.5}, 0.05)
    if iterative:
        b.append(["max_cholesky_size", {"value": 0}])
        b.append(["eval_cg_tolerance", {"value": 1e-10}])
        b.append(["cg_tolerance", {"value": 1e-10}])
        b.append(["max_cg_iterations", {"value": 2000}])
        b.append(["max_root_decomposition_size", {"value": 200}])
        b.append(["max_lanczos_quadrature_iterations", {"value": 200}])
    rng.shuffle(b)
    return b


def has(bundle, name, **kw):
    for n, a in bundle:
        if n == name and all(a.get(k) == v for k, v in kw.items()):
            return True
    return False


def is_iterative(bundle):
    return has(bundle, "max_cholesky_size", value=0)


def fmt(bundle):
    if not bundle:
        return "<defaults>"
    return ", ".join(
        "%s(%s)" % (n, ", ".join(("%r" % v) if k == "value" else "%s=%r" % (k, v) for k, v in a.items())) for n, a in bundle
    )
