"""C03 (variational GPs) - evaluation-mode outputs are history independent.
Same idea as m_c03 for ApproximateGP models with every variational strategy / distribution pair:
after any history of predictions under different settings, training-mode calls, prior calls, ELBO/NGD
steps, load_state_dict (good and failing), mode switches, OVC fantasy models and failing user modules,
the next prediction equals that of a freshly constructed model holding the same state_dict."""
from __future__ import annotations

import copy
import json
import warnings

import torch

from . import bundles, compare, core, driver, zoo
from .zoo import FAULTS

PROPERTY = "C03"
NAME = "c03v"
RULE = (
    "variational machine: a case is one history (strategy/distribution/likelihood recipe + sequence of public "
    "operations, settings bundles, injected failures); non-trivial = a prediction, then at least one state- or "
    "cache-affecting operation, then another prediction compared with the fresh-instance oracle; distinct = distinct "
    "canonical (op kind, failure kind, settings class) sequence per strategy/distribution pair"
)
STUBBED = ["user-owned mean / kernel / model.forward with a SimFault fault point on the k-th call"]
ASSUMPTIONS = ["oracle = fresh model of the same recipe loaded with the live model's state_dict, same settings and torch seed; tolerance 1e-6 (1e-4 for CIQ, which is iterative by construction)"]
EXPECTED_PROBES = {
    "quick": ["cache_reused_after_mutation_class_op", "failed_op_then_predict", "eval_cache_populated"],
    "thorough": ["cache_reused_after_mutation_class_op", "failed_op_then_predict", "eval_cache_populated"],
}

KINDS = {
    "predict": 6.0,
    "train": 0.8,
    "eval": 0.8,
    "train_call": 1.0,
    "prior_predict": 0.8,
    "train_steps": 1.5,
    "perturb": 1.0,
    "load_state_dict": 1.2,
    "fantasize": 0.6,
    "kl": 0.5,
    "objective": 0.5,
    "set_train_data": 0.4,
    "sub_mode": 0.7,
}
FAULT_KINDS = {"fault_predict": 1.5, "bad_load_state_dict": 1.2}


def generate(rng, tier, index):
    thorough = tier == "thorough"
    faulty = index % 2 == 1
    strategies = sorted(set(zoo.VAR_STRATEGIES))
    recipe = zoo.gen_variational_recipe(rng, [strategies[index % len(strategies)]] if index < 4 * len(strategies) else None)
    if recipe["strategy"] == "batch_decoupled" and recipe["dist"] == "delta":
        recipe["dist"] = "cholesky"
    kinds = dict(KINDS)
    for k in list(kinds):
        if k != "predict" and rng.random() < 0.35:
            del kinds[k]
    if faulty:
        for k, w in FAULT_KINDS.items():
            if rng.random() < 0.8:
                kinds[k] = w
    allow = None if rng.random() < 0.3 else set(rng.sample(driver.VAR_KNOBS, rng.randint(0, 4)))
    p_each = rng.choice([0.25, 0.5, 0.9])
    max_len = rng.randint(3, 12) if not thorough else rng.randint(4, 36)
    items = sorted(kinds.items())
    ops = [driver.gen_op(rng, recipe, "predict", allow, p_each)]
    strat = sorted(k for k in list(KINDS) + list(FAULT_KINDS) if k != "predict")
    if index < 2 * len(strat) * 2:
        ops.append(driver.gen_op(rng, recipe, strat[(index // 2) % len(strat)], allow, p_each))
        ops.append(driver.gen_op(rng, recipe, "predict", allow, p_each))
    elif thorough and index < 2 * len(strat) * 2 + 2 * len(strat) ** 2:
        j = (index - 2 * len(strat) * 2) // 2
        ops.append(driver.gen_op(rng, recipe, strat[j % len(strat)], allow, p_each))
        ops.append(driver.gen_op(rng, recipe, strat[(j // len(strat)) % len(strat)], allow, p_each))
        ops.append(driver.gen_op(rng, recipe, "predict", allow, p_each))
    while len(ops) < max_len:
        ops.append(driver.gen_op(rng, recipe, core.weighted_choice(rng, items), allow, p_each))
    if ops[-1]["op"] != "predict":
        ops.append(driver.gen_op(rng, recipe, "predict", allow, p_each))
    core.sticky_bundles(rng, ops)
    for o in ops:
        if o["op"] == "predict" and rng.random() < 0.12:
            o["at"] = "inducing"  # predict exactly at the current inducing points (strategies special-case torch.equal(x, Z))
    return {"recipe": recipe, "ops": ops, "header": {"faulty": faulty}}


def tolerance(recipe):
    return 1e-4 if recipe["strategy"] == "ciq" else compare.TOL_EXACT


def bundle_class(b):
    return "jit%d-trace%d-lazy%d" % (
        int(bundles.has(b, "variational_cholesky_jitter")),
        int(bundles.has(b, "trace_mode", state=True)),
        0 if bundles.has(b, "lazily_evaluate_kernels", state=False) else 1,
    )


def has_eval_cache(model):
    vs = model.variational_strategy
    for s in (vs, getattr(vs, "base_variational_strategy", None)):
        if s is not None and getattr(s, "_memoize_cache", None):
            return True
    return False


def execute(history):
    out = core.Outcome()
    from . import m_c20

    m_c20._capture_pristine()
    m_c20.reset_globals()
    FAULTS.disarm()
    cm = warnings.catch_warnings()
    cm.__enter__()
    warnings.simplefilter("ignore")
    try:
        recipe = history["recipe"]
        live = driver.Live(recipe)
        M = live.model
        tol = tolerance(recipe)
        sketch = []
        mutated = failed = False
        seen_pred = nontrivial = False
        fam = "%s/%s" % (recipe["strategy"], recipe["dist"])
        cache_bundle = None
        for i, op in enumerate(history["ops"]):
            out.steps += 1
            k = op["op"]
            out.stats["op:" + k] += 1
            tag = k
            if k == "predict":
                driver.set_mode(live, False)
                had_cache = has_eval_cache(M)
                if had_cache and mutated:
                    out.stats["probe:cache_reused_after_mutation_class_op"] += 1
                if failed:
                    out.stats["probe:failed_op_then_predict"] += 1
                args = driver.test_args(recipe, op)
                if op.get("at") == "inducing":
                    z = getattr(M.variational_strategy, "inducing_points", None)
                    if torch.is_tensor(z) and z.dim() == 2 and z.shape[-1] == recipe["d"]:
                        args = (z.detach().clone(),)
                        out.stats["probe:predict_at_inducing_points"] += 1
                rm = driver.predict(M, args, op, op.get("lik", False))
                if not had_cache:
                    cache_bundle = op.get("bundle", [])
                if has_eval_cache(M):
                    out.stats["probe:eval_cache_populated"] += 1
                # oracle
                try:
                    F = zoo.fresh_model(recipe, zoo.model_state(M, recipe))
                    F.eval()
                    F.likelihood.eval()
                    # same autograd mode as the live call: squared distances are post-processed differently when inputs require
                    # grad (no exact zeros on the diagonal), which changes K_ZZ by rounding and q(f) by up to 1e-4 relative - a pure
                    # function of the mode, not of the history
                    rf = driver.predict(F, args, op, op.get("lik", False))
                except Exception as e:  # noqa
                    rf = ("torn", type(e).__name__, str(e)[:200])
                out.stats["oracle_comparisons"] += 1
                b = op.get("bundle", [])
                jit_now = [a for n, a in b if n == "variational_cholesky_jitter"]
                jit_then = [a for n, a in (cache_bundle or []) if n == "variational_cholesky_jitter"]
                cls = {
                    "family": fam,
                    "strategy": recipe["strategy"],
                    "after_failed_op": failed,
                    "cache_settings_differ": bool(had_cache and (jit_now != jit_then or bundles.has(b, "linalg_dtypes") != bundles.has(cache_bundle or [], "linalg_dtypes"))),
                }
                if rm[0] == "ok":
                    for q in sorted(rm[1]):
                        out.log.add("obs%d:%s" % (i, q), rm[1][q])
                if rm[0] == "ok" and rf[0] == "ok":
                    bad, mx = compare.compare_obs(rm[1], rf[1], tol)
                    if bad:
                        q, diff, scale = bad[0]
                        out.violate(
                            "stale_prediction",
                            i,
                            "%s of the live variational model differs from a fresh model with the same state_dict by %.3g (scale %.3g, tol %.1g) under %s"
                            % (q, diff, scale, tol, bundles.fmt(b)),
                            quantity=q.split("_")[0],
                            **cls,
                        )
                    else:
                        out.note_diff("tol=%g" % tol, mx)
                elif rf[0] == "torn":
                    out.violate("torn_state", i, "state_dict of the live model cannot be loaded into a fresh model of the same recipe: %s" % rf[2], **cls)
                elif rm[0] == "exc" and rf[0] == "ok":
                    out.violate("raise_mismatch", i, "live model raised %s(%s) but the fresh model predicts under %s" % (rm[1], rm[2], bundles.fmt(b)), live=rm[1], **cls)
                elif rm[0] == "ok" and rf[0] == "exc":
                    out.stats["probe:fresh_rejects_live_answers_" + rf[1]] += 1
                else:
                    out.stats["rejected:predict_both_raise_" + rm[1]] += 1
                if seen_pred and (mutated or failed):
                    nontrivial = True
                seen_pred = True
                mutated = failed = False
                tag = "predict[%s]" % bundle_class(b)
            else:
                status, obs = driver.apply(live, op, out)
                for q in sorted(obs):
                    if torch.is_tensor(obs[q]):
                        out.log.add("op%d:%s" % (i, q), obs[q])
                if status == "skipped":
                    tag = "skipped"
                else:
                    mutated = True
                if status == "fault":
                    failed = True
                    tag = k + "[fault]"
                if k == "bad_load_state_dict":
                    tag = "bad_load_state_dict[%s]" % op["kind"]
            out.transitions.add("%s|%s|cache%d->%s" % (recipe["strategy"], "T" if M.training else "E", int(has_eval_cache(M)), tag))
            sketch.append(tag)
        out.nontrivial = nontrivial
        out.sketch = fam + ":" + recipe["lik"] + ":" + ">".join(sketch)
    finally:
        cm.__exit__(None, None, None)
        FAULTS.disarm()
        m_c20.reset_globals()
    return out


def render(history):
    r = history["recipe"]
    lines = ["# C03 (variational) history; recipe = " + json.dumps(r, sort_keys=True), "M = build_variational(recipe); randomise_parameters(M, init_seed)"]
    for i, op in enumerate(history["ops"]):
        o = dict(op)
        k = o.pop("op")
        b = o.pop("bundle", None)
        s = "%2d: %s(%s)" % (i, k, ", ".join("%s=%r" % kv for kv in sorted(o.items())))
        if b is not None:
            s += "  under " + bundles.fmt(b)
        if k == "predict":
            s += "   # compared with fresh(recipe).load_state_dict(M.state_dict()) under the same settings"
        lines.append(s)
    return "\n".join(lines)


def simplify(history):
    for i, op in enumerate(history["ops"]):
        b = op.get("bundle")
        if b:
            for j in range(len(b)):
                h = copy.deepcopy(history)
                h["ops"][i]["bundle"] = b[:j] + b[j + 1 :]
                yield h
        for key, val in (("lik", False), ("t", 1), ("grad", False)):
            if key in op and op[key] != val:
                h = copy.deepcopy(history)
                h["ops"][i][key] = val
                yield h
    r = history["recipe"]
    for key, val in (("ard", False), ("mean", "zero"), ("d", 1), ("kernel", "rbf"), ("lik", "gaussian"), ("learn_z", True)):
        if key in r and r[key] != val and not (key == "lik" and r["strategy"] in ("lmc", "indep_mt")):
            h = copy.deepcopy(history)
            h["recipe"][key] = val
            yield h


def budget(tier):
    if tier == "quick":
        return {"runs": 1200, "wall": 200, "digest_sample": 16}
    return {"runs": 50000, "wall": 2400, "digest_sample": 64}
