"""Deterministic simulation harness for gpytorch (see /verif/DESIGN.md)."""
