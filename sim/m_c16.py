"""C16 - missing observations (NaN policy) behave as if deleted.
Fault model: the observation stream loses values (NaN targets).  A live model is driven through
histories of set-targets(NaN pattern) / predict(policy) / objective(policy) / mode switches /
optimiser steps / policy switches and compared with a dense Gaussian conditional on the observed
subset of the model's own prior and noise.  DESIGN.md section 4.3."""
from __future__ import annotations

import copy
import json
import math
import warnings

import gpytorch
import torch

from . import bundles, compare, core, zoo

PROPERTY = "C16"
NAME = "c16"
RULE = (
    "a case is one history: model recipe + sequence of set_targets(NaN pattern), predict(policy, settings), "
    "mll/expected_log_prob/log_marginal(policy), train/eval, optimiser steps; non-trivial = at least one quantity was "
    "computed under mask or fill on targets containing >= 1 NaN and compared with the deletion reference; distinct = "
    "distinct canonical sequence of (op kind, policy, NaN-pattern class, settings class) per model family"
)
STUBBED = ["NaN injection into the target stream (observation loss)"]
ASSUMPTIONS = [
    "reference = dense Gaussian conditional on the observed entries, computed from the model's own prior (prior_mode call on [X; x*]) "
    "and the likelihood's own dense noise; for single-output unbatched models it must first agree with the real code run on the deleted data",
    "'mask' removes an observation for the whole batch when it is NaN in any batch element (documented), so the reference deletes the union for batched models under mask",
    "'fill' is documented as unsupported by ExactMarginalLogLikelihood and with lazily evaluated kernels: those rejections are allowed",
    "tolerance 1e-6*max(1,|ref|)",
]
EXPECTED_PROBES = {
    "quick": ["nan_present_compared", "policy_switch_without_reset", "all_but_one", "multitask_partial_task", "zero_nan_equals_ignore"],
    "thorough": ["nan_present_compared", "policy_switch_without_reset", "all_but_one", "multitask_partial_task", "zero_nan_equals_ignore"],
}
TOL = 1e-6
# kernel-specific prediction strategies / added loss terms: no dense closed form of what the library computes, so the
# reference is the REAL model (same recipe and state) constructed on the data with the NaN observations deleted
APPROX = ("sgpr", "kissgp")


def generate(rng, tier, index):
    thorough = tier == "thorough"
    fam = rng.choice(["default", "default", "default", "multitask", "multitask", "sgpr", "rff", "kissgp"])
    recipe = zoo.gen_exact_recipe(rng, [fam])
    recipe.pop("late_data", None)
    recipe.pop("one_d", None)
    if fam == "kissgp":
        recipe["grid_bounds"] = [[-0.3, 1.3]] * recipe["d"]
    if fam == "rff":
        recipe["rff_lazy"] = False
    approx = fam in APPROX
    recipe["lik"] = "gaussian" if (fam != "default" or rng.random() < 0.75) else rng.choice(["fixed", "fixed_learn"])
    recipe.pop("active_dims", None)
    if fam == "default":
        recipe["batch"] = rng.choice([[], [], [2], [2]])
        if recipe["batch"] and recipe["lik"] == "gaussian" and rng.random() < 0.4:
            recipe["shared_data"] = True  # batched hyper-parameters, one un-batched data set
            recipe["batch"] = rng.choice([[2], [3]])
    elif fam == "multitask":
        recipe["batch"] = rng.choice([[], [], [2]])  # batched Kronecker multitask models too
    else:
        recipe["batch"] = []
    recipe["n"] = rng.randint(3, 7) if fam in ("default", "rff") else (rng.randint(5, 8) if approx else rng.randint(3, 4))
    if recipe.get("shared_data"):
        # n == b makes the likelihood's noise-shape inference ambiguous (the per-batch noise is applied along the data axis
        # - under every policy, also 'ignore': a pure-function defect outside C16)
        recipe["n"] = max(recipe["n"], 4)
    max_len = rng.randint(3, 10) if not thorough else rng.randint(4, 30)
    # iterative regime with small targets: the mean-cache solve runs through CG, whose stopping rule is relative to the norm
    # of the right-hand side - whatever 'fill' puts into the missing entries must not drown the observed ones
    cg_small = fam == "default" and not recipe["batch"] and recipe["lik"] == "gaussian" and rng.random() < 0.12
    if cg_small:
        recipe["n"] = rng.randint(10, 14)
        recipe["target_scale"] = 1e-3
        recipe["mean"] = "zero"
        recipe.pop("priors", None)
    rate_mode = rng.choice(["none", "low", "high", "all_but_one", "mixed"])
    allow = {"fast_pred_var", "detach_test_caches", "max_eager_kernel_size", "lazily_evaluate_kernels", "skip_posterior_variances"}
    if approx:
        # the reference is the real model on the deleted data: randomised LOVE caches of two different training sets are
        # not comparable, and SGPR needs lazily evaluated kernels
        allow = {"detach_test_caches", "skip_posterior_variances"}
    if rng.random() < 0.5:
        allow = set(rng.sample(sorted(allow), rng.randint(0, 2)))

    def gen_targets():
        mode = rate_mode if rate_mode != "mixed" else rng.choice(["none", "low", "high", "all_but_one", "per_task"])
        return {"op": "set_targets", "seed": rng.randrange(1 << 30), "mode": mode, "rate": {"none": 0.0, "low": 0.2, "high": 0.6}.get(mode, 0.4), "strict": rng.random() < 0.5}

    def gen_predict(policy=None):
        policy = policy or rng.choice(["mask", "mask", "fill"])
        t = rng.randint(1, 3)
        al = allow if policy == "mask" else (allow & {"fast_pred_var", "detach_test_caches", "skip_posterior_variances"})
        return {
            "op": "predict",
            "policy": policy,
            "seed": rng.randrange(1 << 30),
            "t": t,
            "bundle": bundles.gen_bundle(rng, recipe["n"] + t, allow=al, p_each=0.35)
            if not recipe.get("target_scale")
            else [["max_cholesky_size", {"value": 0}], ["eval_cg_tolerance", {"value": 1e-6}], ["cg_tolerance", {"value": 1e-6}], ["max_cg_iterations", {"value": 2000}]],
        }

    ops = [gen_targets(), gen_predict()]
    if index % 4 == 0:
        # stratified: the "whichever policy was used first" order, without a cache reset in between
        first = ops[1]["policy"]
        ops.append(gen_predict("fill" if first == "mask" else "mask"))
    while len(ops) < max_len:
        k = core.weighted_choice(
            rng,
            [("predict", 5.0), ("set_targets", 1.5), ("mll", 1.5), ("elp", 1.0), ("log_marginal", 1.0), ("train", 0.5), ("eval", 0.5), ("train_steps", 0.7)],
        )
        if k == "predict":
            ops.append(gen_predict())
        elif k == "set_targets":
            ops.append(gen_targets())
        elif k in ("mll", "elp", "log_marginal"):
            ops.append({"op": k, "policy": rng.choice(["mask", "mask", "fill"]), "seed": rng.randrange(1 << 30)})
        elif k == "train_steps":
            ops.append({"op": k, "k": rng.randint(1, 2), "lr": 0.1})
        else:
            ops.append({"op": k})
    return {"recipe": recipe, "ops": ops}


# ----------------------------------------------------------------------------- reference model (dense, ~40 lines)


def dense_prior_and_noise(M, recipe, X, xs):
    """The model's own prior on [X; x*] and the likelihood's own dense noise on X (both dense tensors)."""
    full = torch.cat([X, xs.expand(*X.shape[:-2], *xs.shape[-2:])], dim=-2)
    was_training = M.training
    M.eval()
    try:
        with torch.no_grad(), gpytorch.settings.prior_mode(True), gpytorch.settings.lazily_evaluate_kernels(False):
            joint = M(full)
            prior_x = M(X)
            noisy = M.likelihood(prior_x)
            mu = joint.mean
            K = joint.covariance_matrix
            S = noisy.covariance_matrix - prior_x.covariance_matrix
    finally:
        M.train(was_training)
    return mu, K, S


def reference_posterior(M, recipe, y, xs, policy):
    X = M.train_inputs[0]
    T = recipe.get("tasks") if recipe["family"] == "multitask" else 1
    mu, K, S = dense_prior_and_noise(M, recipe, X, xs)
    n = X.shape[-2]
    t = xs.shape[-2]
    batch = list(mu.shape[: -1 if T == 1 else -2])
    muf = mu.reshape(*batch, (n + t) * T)
    yf = y.reshape(*y.shape[: len(y.shape) - (1 if T == 1 else 2)], n * T).expand(*batch, n * T)
    nan = torch.isnan(yf)
    if policy == "mask" and batch:
        nan = nan.reshape(-1, n * T).any(0).expand(*batch, n * T)
    means, covs = [], []
    cond = 1.0
    idx_iter = [()] if not batch else [(b,) for b in range(batch[0])]
    for b in idx_iter:
        o = ~nan[b]
        Kb, Sb, mb, yb = K[b], S[b], muf[b], yf[b]
        tr = torch.arange(n * T)[o]
        te = torch.arange(n * T, (n + t) * T)
        Koo = Kb[tr][:, tr] + Sb[tr][:, tr]
        Kso = Kb[te][:, tr]
        L = torch.linalg.cholesky(Koo)
        cond = max(cond, float(torch.linalg.cond(Koo)))
        alpha = torch.cholesky_solve((yb[o] - mb[tr]).unsqueeze(-1), L).squeeze(-1)
        means.append(mb[te] + Kso @ alpha)
        covs.append(Kb[te][:, te] - Kso @ torch.cholesky_solve(Kso.transpose(-1, -2), L))
    mean = torch.stack(means).reshape(*batch, t * T) if batch else means[0]
    cov = torch.stack(covs) if batch else covs[0]
    if T > 1:
        mean = mean.reshape(*batch, t, T)
    return {"mean": mean, "covar": cov, "variance": cov.diagonal(dim1=-1, dim2=-2).reshape(mean.shape)}, cond


def reference_log_marginal_terms(M, recipe, y, kind, policy):
    """Per-entry terms of expected_log_prob / log_marginal on the prior at X, at the observed positions, and the
    exact log marginal likelihood of the observed subset."""
    X = M.train_inputs[0]
    T = recipe.get("tasks") if recipe["family"] == "multitask" else 1
    xs = X[..., :1, :]
    mu, K, S = dense_prior_and_noise(M, recipe, X, xs if xs.dim() == 2 else xs[0])
    n = X.shape[-2]
    batch = list(mu.shape[: -1 if T == 1 else -2])
    N = n * T
    muf = mu.reshape(*batch, -1)[..., :N]
    Kxx = K[..., :N, :N]
    yf = y.reshape(*y.shape[: len(y.shape) - (1 if T == 1 else 2)], N).expand(*batch, N)
    nan = torch.isnan(yf)
    if policy == "mask" and batch:
        nan = nan.reshape(-1, N).any(0).expand(*batch, N)
    return muf, Kxx, S, yf, nan, batch, N


# ----------------------------------------------------------------------------- execution


def make_nan_targets(recipe, op, M):
    X = M.train_inputs[0]
    fam = recipe["family"]
    T = recipe.get("tasks") if fam == "multitask" else None
    y = zoo.make_targets(op["seed"], X, scale=2.0, tasks=T) * float(recipe.get("target_scale", 1.0))
    g = zoo.gen(op["seed"] + 7)
    mode = op["mode"]
    if mode == "none":
        return y
    if mode == "all_but_one":
        mask = torch.ones_like(y, dtype=torch.bool)
        flat = mask.reshape(-1, mask.shape[-1] if T is None else mask.shape[-1] * mask.shape[-2]) if y.dim() > (1 if T is None else 2) else mask.reshape(1, -1)
        for row in flat:
            row[int(torch.randint(0, row.numel(), (1,), generator=g))] = False
        mask = flat.reshape(y.shape)
    elif mode == "per_task" and T:
        mask = torch.zeros_like(y, dtype=torch.bool)
        task = int(torch.randint(0, T, (1,), generator=g))
        mask[..., task] = torch.rand(y.shape[:-1], generator=g) < 0.7
    else:
        mask = torch.rand(y.shape, generator=g) < op["rate"]
    # never lose everything: keep at least one observation per batch element (and overall for the 'mask' union)
    y2 = y.clone()
    y2[mask] = float("nan")
    flat = y2.reshape(-1, y2.shape[-1] if T is None else y2.shape[-1] * y2.shape[-2]) if (y2.dim() > (1 if T is None else 2)) else y2.reshape(1, -1)
    yorig = y.reshape(flat.shape)
    # union over batch must keep one column
    col_nan = torch.isnan(flat).any(0)
    if bool(col_nan.all()):
        j = int(torch.randint(0, flat.shape[-1], (1,), generator=g))
        flat[:, j] = yorig[:, j]
    return flat.reshape(y.shape)


def nan_class(y):
    k = int(torch.isnan(y).sum())
    if k == 0:
        return "none"
    if k >= y.numel() - max(1, y.shape[0] if y.dim() > 1 else 1):
        return "allbut1"
    return "some" if k < y.numel() / 2 else "many"


def execute(history):
    out = core.Outcome()
    from . import m_c20

    m_c20._capture_pristine()
    m_c20.reset_globals()
    cm = warnings.catch_warnings()
    cm.__enter__()
    warnings.simplefilter("ignore")
    try:
        recipe = history["recipe"]
        fam = recipe["family"]
        T = recipe.get("tasks") if fam == "multitask" else None
        torch.manual_seed(recipe["init_seed"])
        M = zoo.build_exact(recipe)
        zoo.randomise_parameters(M, recipe["init_seed"])
        y = M.train_targets
        # one long-lived objective object per history, as users create it (state kept on it must not leak between calls)
        MLL = gpytorch.mlls.ExactMarginalLogLikelihood(M.likelihood, M)
        sketch = []
        policies_since_reset = []
        compared_with_nan = False
        for i, op in enumerate(history["ops"]):
            out.steps += 1
            k = op["op"]
            out.stats["op:" + k] += 1
            tag = k
            nans = int(torch.isnan(y).sum())
            if k == "set_targets":
                y = make_nan_targets(recipe, op, M)
                M.set_train_data(targets=y, strict=bool(op.get("strict", False)))  # same shape/dtype: strict is legal
                out.stats["fault:observations_lost"] += int(torch.isnan(y).sum())
                out.stats["fault:target_streams_with_loss"] += int(bool(torch.isnan(y).any()))
                policies_since_reset = []
                tag = "set_targets[%s]" % nan_class(y)
                if nan_class(y) == "allbut1":
                    out.stats["probe:all_but_one"] += 1
                if T and nans and not bool(torch.isnan(y).all(-1).any()) :
                    pass
            elif k == "train":
                M.train()
                M.likelihood.train()
                policies_since_reset = []
            elif k == "eval":
                M.eval()
                M.likelihood.eval()
                policies_since_reset = []
            elif k == "train_steps":
                M.train()
                M.likelihood.train()
                policies_since_reset = []
                opt = torch.optim.Adam(M.parameters(), lr=op["lr"])
                mll = MLL
                with gpytorch.settings.observation_nan_policy("mask"):
                    for _ in range(op["k"]):
                        opt.zero_grad()
                        try:
                            loss = -mll(M(*M.train_inputs), M.train_targets).sum()
                            if not torch.isfinite(loss):
                                out.violate("nan_in_output", i, "masked MLL is not finite during training (%r) with %d NaN targets" % (float(loss), nans), family=fam, quantity="mll", has_nan=nans > 0)
                                break
                            loss.backward()
                            if any(p.grad is not None and not torch.isfinite(p.grad).all() for p in M.parameters()):
                                out.violate("nan_in_output", i, "gradient of the masked MLL contains NaN/Inf with %d NaN targets" % nans, family=fam, quantity="mll_grad", has_nan=nans > 0)
                                break
                            opt.step()
                        except Exception as e:  # noqa
                            out.stats["rejected:train_step_" + type(e).__name__] += 1
                            break
            elif k == "predict":
                if M.training:
                    M.eval()
                    M.likelihood.eval()
                    policies_since_reset = []
                policy = op["policy"]
                xs = zoo.rand(op["seed"], op["t"], recipe["d"]) * 1.1 - 0.05
                if M.prediction_strategy is None:
                    policies_since_reset = []
                if policies_since_reset and policy not in policies_since_reset:
                    out.stats["probe:policy_switch_without_reset"] += 1
                switched = bool(policies_since_reset) and policies_since_reset[0] != policy
                policies_since_reset.append(policy)
                torch.manual_seed(op["seed"])
                b = op.get("bundle", [])
                try:
                    with torch.no_grad(), gpytorch.settings.observation_nan_policy(policy), bundles.entered(b):
                        dist = M(xs)
                        obs = compare.observe_dist(dist)
                    res = ("ok", obs)
                except Exception as e:  # noqa
                    res = ("exc", type(e).__name__, str(e)[:200])
                tag = "predict[%s,%s,%s]" % (policy, nan_class(y), "fpv" if bundles.has(b, "fast_pred_var", state=True) else "std")
                cls = {"family": fam, "policy": policy, "has_nan": nans > 0, "batched": bool(recipe.get("batch")), "switched": switched}
                if res[0] == "exc":
                    allowed = policy == "fill" and (
                        bundles.has(b, "max_eager_kernel_size") or bundles.has(b, "lazily_evaluate_kernels")
                    )
                    # is it a pure-function rejection?  the same call on a fresh model tells
                    if allowed:
                        out.stats["rejected:predict_fill_lazy_" + res[1]] += 1
                    else:
                        out.violate("policy_prediction_raises", i, "prediction under policy %s raised %s(%s) with %d NaN targets under %s" % (policy, res[1], res[2], nans, bundles.fmt(b)), exc=res[1], **cls)
                else:
                    for q in sorted(obs):
                        out.log.add("obs%d:%s" % (i, q), obs[q])
                    skip_var = bundles.has(b, "skip_posterior_variances", state=True)
                    if fam in APPROX:
                        ref, cond = reference_real_deletion(out, M, recipe, y, xs, b, op["seed"]), 1.0
                        if ref is None:
                            sketch.append(tag + "?")
                            continue
                    else:
                        ref, cond = reference_posterior(M, recipe, y, xs, policy)
                    # two algorithms for one linear system differ by ~cond*eps: widen with the conditioning of K_oo + S_oo
                    tol = TOL * max(1.0, cond / 1e4)
                    if fam in APPROX:
                        tol = 1e-4 if fam == "kissgp" else 1e-5
                    guard_ok = True
                    if cond > 1e9:
                        out.stats["probe:ill_conditioned_skipped"] += 1
                        guard_ok = False
                    if guard_ok and nans and fam == "default" and not recipe.get("batch"):
                        guard_ok = oracle_guard(out, M, recipe, y, xs, ref, tol)
                    if guard_ok:
                        out.stats["oracle_comparisons"] += 1
                        if nans:
                            compared_with_nan = True
                            out.stats["probe:nan_present_compared"] += 1
                            if T and bool((torch.isnan(y).any(-1) & ~torch.isnan(y).all(-1)).any()):
                                out.stats["probe:multitask_partial_task"] += 1
                        quantities = ["mean"] if skip_var else ["mean", "covar", "variance"]
                        ref_all = None
                        for q in quantities:
                            a = obs[q]
                            r = ref[q]
                            if a.shape != r.shape and a.numel() == r.numel():
                                r = r.reshape(a.shape)
                            if not torch.isfinite(a).all():
                                out.violate("nan_in_output", i, "%s under policy %s contains NaN/Inf with %d NaN targets" % (q, policy, nans), quantity=q, **cls)
                                continue
                            if recipe.get("target_scale") and q == "mean":
                                # small targets: judge the mean relative to its own scale (1e-3 of it), not to 1
                                a, r = a / recipe["target_scale"], r / recipe["target_scale"]
                                out.stats["probe:cg_small_targets_mean_compared"] += 1
                            ok, diff, scale = compare.tensor_diff(a, r)
                            # (iterative regime: CG at relative tolerance 1e-6 on O(1) right-hand sides for the covariance)
                            qtol = ((1e-3 if q == "mean" else 1e-4) if recipe.get("target_scale") else tol)
                            if not ok or not diff <= qtol * scale:
                                # narrow classification for known finding F5: is it exactly the covariance obtained by
                                # conditioning on *all* training locations (the policy ignored by the covariance path)?
                                unmasked = False
                                if q in ("covar", "variance") and nans and fam in APPROX:
                                    if ref_all is None:
                                        with torch.no_grad(), bundles.entered(b):
                                            Fa = zoo.fresh_exact(recipe, dict(zoo.exact_state(M), targets=torch.zeros_like(y)))
                                            Fa.eval()
                                            ref_all = compare.observe_dist(Fa(xs))
                                    ok2, diff2, scale2 = compare.tensor_diff(a, ref_all[q].reshape(a.shape))
                                    unmasked = bool(ok2 and diff2 <= qtol * scale2)
                                elif q in ("covar", "variance") and nans:
                                    if ref_all is None:
                                        ref_all, _ = reference_posterior(M, recipe, torch.zeros_like(y), xs, policy)
                                    ra = ref_all[q].reshape(a.shape) if ref_all[q].numel() == a.numel() else ref_all[q]
                                    ok2, diff2, scale2 = compare.tensor_diff(a, ra)
                                    unmasked = bool(ok2 and diff2 <= qtol * scale2)
                                out.violate(
                                    "posterior_vs_deletion",
                                    i,
                                    "%s under policy %s differs from the posterior after deleting the %d NaN observations by %.3g (scale %.3g) under %s%s"
                                    % (q, policy, nans, diff, scale, bundles.fmt(b), " [equals the covariance conditioned on all training locations]" if unmasked else ""),
                                    quantity=q,
                                    equals_unmasked_covariance=unmasked,
                                    **cls,
                                )
                            else:
                                out.note_diff("posterior (relative to tol)", diff / scale / tol * TOL)
                        if nans == 0:
                            # with zero NaNs every policy equals 'ignore'
                            with torch.no_grad(), bundles.entered(b):
                                F = zoo.fresh_exact(recipe, zoo.exact_state(M))
                                F.eval()
                                torch.manual_seed(op["seed"])
                                o2 = compare.observe_dist(F(xs))
                            bad, mx = compare.compare_obs({q: obs[q] for q in quantities}, {q: o2[q] for q in quantities}, TOL)
                            out.stats["probe:zero_nan_equals_ignore"] += 1
                            if bad:
                                out.violate("policy_changes_nan_free_result", i, "%s under policy %s on NaN-free targets differs from policy ignore by %.3g" % (bad[0][0], policy, bad[0][1]), quantity=bad[0][0], **cls)
            elif k in ("elp", "log_marginal") and fam in APPROX:
                # likelihood-only terms: nothing kernel-specific in them (covered by the dense families)
                out.stats["skipped:likelihood_terms_for_approximate_family"] += 1
                tag = "skipped"
            elif k in ("mll", "elp", "log_marginal"):
                policy = op["policy"]
                res = objective(out, i, M, recipe, y, k, policy, MLL)
                tag = "%s[%s,%s]" % (k, policy, nan_class(y))
                if res and nans:
                    compared_with_nan = True
                    out.stats["probe:nan_present_compared"] += 1
            else:
                raise core.HarnessError("unknown op " + k)
            out.transitions.add("%s|%s->%s" % (fam, "T" if M.training else "E", tag))
            sketch.append(tag)
        out.nontrivial = compared_with_nan
        out.sketch = fam + ":" + ">".join(sketch)
    finally:
        cm.__exit__(None, None, None)
        m_c20.reset_globals()
    return out


def deleted_model(M, recipe, y):
    o = ~torch.isnan(y)
    state = zoo.exact_state(M)
    state["inputs"] = tuple(t[o] for t in M.train_inputs)
    state["targets"] = y[o]
    if state.get("fixed_noise") is not None:
        state["fixed_noise"] = state["fixed_noise"][o]
    return zoo.fresh_exact(recipe, state), int(o.sum())


def reference_real_deletion(out, M, recipe, y, xs, bundle, seed):
    """Unbatched single-output models: what the same model class predicts when the NaN observations are deleted."""
    try:
        D, n_obs = deleted_model(M, recipe, y)
        D.eval()
        D.likelihood.eval()
        torch.manual_seed(seed)
        with torch.no_grad(), bundles.entered(bundle):
            return compare.observe_dist(D(xs))
    except Exception as e:  # noqa
        out.stats["probe:real_deletion_reference_unavailable_" + type(e).__name__] += 1
        return None


def oracle_guard(out, M, recipe, y, xs, ref, tol=TOL):
    """Single-output unbatched: the dense reference must agree with the real code on the deleted data."""
    o = ~torch.isnan(y)
    X = M.train_inputs[0]
    state = zoo.exact_state(M)
    state["inputs"] = (X[o],)
    state["targets"] = y[o]
    if state.get("fixed_noise") is not None:
        state["fixed_noise"] = state["fixed_noise"][o]  # the deleted observations' fixed noise goes with them
    try:
        D = zoo.fresh_exact(recipe, state)
        D.eval()
        with torch.no_grad():
            d = compare.observe_dist(D(xs))
    except Exception as e:  # noqa
        out.stats["probe:oracle_guard_unavailable_" + type(e).__name__] += 1
        return True
    bad, mx = compare.compare_obs(d, ref, tol)
    if bad:
        out.stats["probe:oracle_guard_disagrees"] += 1
        return False
    out.stats["probe:oracle_guard_agrees"] += 1
    return True


def objective(out, i, M, recipe, y, kind, policy, MLL=None):
    fam = recipe["family"]
    T = recipe.get("tasks") if fam == "multitask" else None
    nans = int(torch.isnan(y).sum())
    cls = {"family": fam, "policy": policy, "has_nan": nans > 0, "batched": bool(recipe.get("batch")), "quantity": kind}
    was_training = M.training
    muf, Kxx, S, yf, nan, batch, N = reference_log_marginal_terms(M, recipe, y, kind, policy)
    M.train()
    M.likelihood.train()
    try:
        try:
            with torch.no_grad(), gpytorch.settings.observation_nan_policy(policy):
                prior = M(*M.train_inputs)
                if kind == "mll":
                    val = (MLL if MLL is not None else gpytorch.mlls.ExactMarginalLogLikelihood(M.likelihood, M))(prior, y)
                elif kind == "elp":
                    val = M.likelihood.expected_log_prob(y, prior)
                else:
                    val = M.likelihood.log_marginal(y, prior)
        except ValueError as e:
            if kind == "mll" and policy == "fill":
                out.stats["rejected:mll_fill_ValueError"] += 1
                return False
            out.violate("objective_raises", i, "%s under policy %s raised ValueError(%s)" % (kind, policy, str(e)[:150]), **cls)
            return False
        except Exception as e:  # noqa
            out.violate("objective_raises", i, "%s under policy %s raised %s(%s) with %d NaN targets" % (kind, policy, type(e).__name__, str(e)[:150], nans), **cls)
            return False
    finally:
        M.train(was_training)
        M.likelihood.train(was_training)
    out.log.add("obj%d" % i, val)
    out.stats["oracle_comparisons"] += 1
    if not torch.isfinite(val).all():
        out.violate("nan_in_output", i, "%s under policy %s contains NaN/Inf with %d NaN targets" % (kind, policy, nans), **cls)
        return True
    # ---- reference
    idx_iter = [()] if not batch else [(b,) for b in range(batch[0])]
    refs = []
    for b in idx_iter:
        o = ~nan[b]
        m, Kb, Sb, yb = muf[b], Kxx[b], S[b], yf[b]
        if kind == "mll":
            C = Kb[o][:, o] + Sb[o][:, o]
            L = torch.linalg.cholesky(C)
            r = yb[o] - m[o]
            quad = (torch.cholesky_solve(r.unsqueeze(-1), L).squeeze(-1) * r).sum()
            logdet = 2 * L.diagonal().log().sum()
            lp = -0.5 * (quad + logdet + int(o.sum()) * math.log(2 * math.pi))
            refs.append((lp, int(o.sum())))
        elif kind == "elp":
            noise = Sb.diagonal()
            terms = -0.5 * (((yb - m) ** 2 + Kb.diagonal()) / noise + noise.log() + math.log(2 * math.pi))
            refs.append((terms, o))
        else:
            var = (Kb + Sb).diagonal().clamp_min(1e-8)
            terms = -0.5 * ((yb - m) ** 2 / var + var.log() + math.log(2 * math.pi))
            refs.append((terms, o))
    if kind == "mll" and fam in APPROX:
        # added loss terms (SGPR) / structured solves: N * masked MLL must equal n_obs * MLL of the real model on the deleted data
        try:
            D, n_obs = deleted_model(M, recipe, y)
            D.train()
            D.likelihood.train()
            with torch.no_grad():
                want = gpytorch.mlls.ExactMarginalLogLikelihood(D.likelihood, D)(D(*D.train_inputs), D.train_targets) * n_obs
        except Exception as e:  # noqa
            out.stats["probe:real_deletion_reference_unavailable_" + type(e).__name__] += 1
            return False
        ok, diff, scale = compare.tensor_diff(val.reshape(-1) * N, want.reshape(-1))
        if not ok or not diff <= TOL * scale:
            out.violate("objective_vs_deletion", i, "N * masked MLL differs from n_obs * MLL of the same model on the deleted data by %.3g (scale %.3g) with %d NaN targets" % (diff, scale, nans), **cls)
        else:
            out.note_diff("objective", diff / scale)
        return True
    if kind == "mll":
        # no added loss terms in this zoo: the MLL is [log N(y_o) + log-priors] / N and the deletion answer is the same
        # bracket / |o|: "rescaled by the count of observed values"
        want = torch.stack([lp for lp, _ in refs]).reshape(-1)
        # registered priors enter the exact MLL as additional terms (the recipes may carry priors)
        with torch.no_grad():
            for _, pmod, prior, closure, _ in M.named_priors():
                lp = prior.log_prob(closure(pmod))
                want = want + lp.reshape(*lp.shape[: max(val.dim(), 0)], -1).sum(-1).reshape(-1) if val.dim() else want + lp.sum()
        counts = torch.tensor([float(c) for _, c in refs], dtype=want.dtype)
        ok, diff, scale = compare.tensor_diff(val.reshape(-1) * N, want)
        if not ok or not diff <= TOL * scale:
            # "rescaled by the count of observed values": a normalisation by |o| instead of N is the same statement
            ok, diff, scale = compare.tensor_diff(val.reshape(-1) * counts, want)
        if not ok or not diff <= TOL * scale:
            out.violate("objective_vs_deletion", i, "N * masked MLL differs from log N(y_observed) by %.3g (scale %.3g) with %d NaN targets" % (diff, scale, nans), **cls)
        else:
            out.note_diff("objective", diff / scale)
        return True
    # elp / log_marginal: per-entry terms at the observed positions
    for bi, (terms, o) in enumerate(refs):
        v = val[bi] if batch else val
        terms = torch.where(o, terms, torch.zeros_like(terms))  # unobserved entries contribute nothing
        if T:
            # multitask: results are per data point (summed over tasks) unless masking flattened the event
            if policy == "mask" and v.numel() == int(o.sum()):
                want = terms[o]
            elif policy == "mask" and nans == 0 and v.numel() == N // T:
                want = terms.reshape(-1, T).sum(-1)
            else:
                want = (terms * o).reshape(-1, T).sum(-1)
        else:
            want = terms[o] if policy == "mask" else terms * o
        if v.shape != want.shape:
            out.violate("objective_vs_deletion", i, "%s under policy %s has shape %s, deletion reference has %s" % (kind, policy, tuple(v.shape), tuple(want.shape)), **cls)
            return True
        ok, diff, scale = compare.tensor_diff(v, want)
        if not ok or not diff <= TOL * scale:
            out.violate("objective_vs_deletion", i, "%s terms under policy %s differ from the NaN-free terms at the observed positions by %.3g (scale %.3g) with %d NaN targets" % (kind, policy, diff, scale, nans), **cls)
            return True
        out.note_diff("objective", diff / scale)
    return True


# ----------------------------------------------------------------------------- render / simplify / budget


def render(history):
    r = history["recipe"]
    lines = ["# C16 history; recipe = " + json.dumps(r, sort_keys=True), "M = build(recipe); randomise_parameters(M, init_seed)"]
    for i, op in enumerate(history["ops"]):
        o = dict(op)
        k = o.pop("op")
        b = o.pop("bundle", None)
        s = "%2d: %s(%s)" % (i, k, ", ".join("%s=%r" % kv for kv in sorted(o.items())))
        if b is not None:
            s += "  under " + bundles.fmt(b)
        lines.append(s)
    return "\n".join(lines)


def simplify(history):
    for i, op in enumerate(history["ops"]):
        b = op.get("bundle")
        if b:
            for j in range(len(b)):
                h = copy.deepcopy(history)
                h["ops"][i]["bundle"] = b[:j] + b[j + 1 :]
                yield h
        if op.get("t", 1) > 1:
            h = copy.deepcopy(history)
            h["ops"][i]["t"] = 1
            yield h
        if op.get("op") == "set_targets" and op.get("mode") not in ("low", "none"):
            h = copy.deepcopy(history)
            h["ops"][i]["mode"] = "low"
            h["ops"][i]["rate"] = 0.2
            yield h
    r = history["recipe"]
    for key, val in (("batch", []), ("ard", False), ("mean", "zero"), ("d", 1), ("kernel", "rbf")):
        if key in r and r[key] != val:
            h = copy.deepcopy(history)
            h["recipe"][key] = val
            yield h


def budget(tier):
    if tier == "quick":
        return {"runs": 1600, "wall": 240, "digest_sample": 16}
    return {"runs": 60000, "wall": 2400, "digest_sample": 64}
