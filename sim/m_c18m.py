"""C18 (module level) - persistence round trips of every kernel / likelihood / mean / prior combination.
The model-level machine (m_c18) covers model families; "whether every buffer (bounds, prior parameters, grids,
flags, random features) survives is a per-class fact", so this machine drives each module class of a catalogue
through a short seeded history (parameter assignments, prior sampling, eval-mode evaluations that populate caches,
constraint replacement) and then crashes it: snapshot with state_dict -> torch.save bytes / pickle / deepcopy,
restore (state_dict into a freshly constructed, re-randomised instance), and compares original and restored:
state_dict, kernel matrices / likelihood marginals / mean values on probe inputs, prior log-densities and
seeded prior samples, and the independence of the copy (sampling from a prior on the copy must change the copy and
not the original)."""
from __future__ import annotations

import copy
import io
import json
import pickle
import warnings

import gpytorch
import torch
from gpytorch import constraints as C
from gpytorch import kernels as K
from gpytorch import likelihoods as L
from gpytorch import means as Mn
from gpytorch import priors as P
from gpytorch.distributions import MultivariateNormal

from . import compare, core
from .m_c17 import CATALOGUE as C17_CATALOGUE
from .m_c17 import params_of

PROPERTY = "C18"
NAME = "c18m"
RULE = (
    "module-level machine: a case is one history on one module class (catalogue entry + dtype + sequence of parameter "
    "assignments / prior sampling / evaluations + one or more crash-restore points with a snapshot mechanism); "
    "non-trivial = at least one restore succeeded and was compared; distinct = distinct canonical (entry, dtype, op "
    "kinds, mechanism) sequence"
)
STUBBED = ["in-memory file (io.BytesIO) as the durable medium"]
ASSUMPTIONS = [
    "state_dict restores go into a freshly constructed instance of the same catalogue entry whose parameters were re-randomised",
    "outputs are compared at 1e-6 (float64) / 2e-4 (float32) relative tolerance; state_dict entries exactly for pickle/deepcopy",
]
EXPECTED_PROBES = {
    "quick": ["restored_pickle", "restored_deepcopy", "restored_state_dict", "prior_compared", "copy_independence_checked", "output_compared"],
    "thorough": ["restored_pickle", "restored_deepcopy", "restored_state_dict", "prior_compared", "copy_independence_checked", "output_compared"],
}
DT = {"float32": torch.float32, "float64": torch.float64}


def _g():
    return P.GammaPrior(2.0, 3.0)


class FeatureScaler(gpytorch.Module):
    """gpytorch.utils.grid.ScaleToBounds (a plain torch module with learned buffers) inside a gpytorch module, as in deep kernel models."""

    def __init__(self, scaler):
        super().__init__()
        self.scaler = scaler

    def forward(self, x):
        return self.scaler(x)


EXTRA = {
    "CylindricalKernel_priors": lambda: K.CylindricalKernel(3, K.MaternKernel(nu=2.5), alpha_prior=_g(), beta_prior=_g(), angular_weights_prior=_g()),
    "ArcKernel_priors": lambda: K.ArcKernel(K.MaternKernel(nu=2.5), angle_prior=P.GammaPrior(0.5, 1), radius_prior=P.GammaPrior(3, 2), ard_num_dims=2),
    "SpectralMixtureKernel_2d": lambda: K.SpectralMixtureKernel(num_mixtures=3, ard_num_dims=2),
    "PolynomialKernel_p3": lambda: K.PolynomialKernel(power=3),
    "RFFKernel_big": lambda: K.RFFKernel(num_samples=6, num_dims=2),
    "RFFKernel_lazy_dims": lambda: K.ScaleKernel(K.RFFKernel(num_samples=5)),  # weights drawn at the first evaluation
    "GridInterpolationKernel": lambda: K.GridInterpolationKernel(K.RBFKernel(), grid_size=8, num_dims=2, grid_bounds=[(-1.0, 2.0), (-1.0, 2.0)]),
    "GridInterpolationKernel_dynamic": lambda: K.GridInterpolationKernel(K.MaternKernel(nu=1.5), grid_size=8, num_dims=2),
    "AdditiveStructureKernel": lambda: K.AdditiveStructureKernel(K.RBFKernel(), num_dims=2),
    "ProductStructureKernel": lambda: K.ProductStructureKernel(K.RBFKernel(), num_dims=2),
    "LCMKernel": lambda: K.LCMKernel([K.RBFKernel(), K.MaternKernel(nu=1.5)], num_tasks=2, rank=1),
    "RBFKernelGrad": lambda: K.RBFKernelGrad(lengthscale_prior=_g()),
    "Matern52KernelGrad": lambda: K.Matern52KernelGrad(),
    "PiecewisePolynomialKernel_q0": lambda: K.PiecewisePolynomialKernel(q=0, lengthscale_prior=P.LogNormalPrior(0.0, 1.0)),
    # entries taking a variant v: v changes only numbers (prior parameters, bounds), which must travel in the state_dict;
    # a state_dict restore goes into an instance built with v = 1
    "ScaleKernel_uniformprior": lambda v=0: K.ScaleKernel(K.RBFKernel(), outputscale_prior=P.UniformPrior(0.01, 5.0 + 3.0 * v)),
    "ScaleKernel_halfcauchy": lambda v=0: K.ScaleKernel(K.RBFKernel(lengthscale_prior=P.HalfCauchyPrior(2.0 + v)), outputscale_prior=P.HalfNormalPrior(1.5 + v)),
    "RBFKernel_smoothedbox": lambda v=0: K.RBFKernel(lengthscale_prior=P.SmoothedBoxPrior(0.05, 3.0 + v, sigma=0.1)),
    "RBFKernel_gamma_bounds": lambda v=0: K.RBFKernel(lengthscale_prior=P.GammaPrior(2.0 + v, 3.0 + v), lengthscale_constraint=C.Interval(0.01 * (1 + v), 10.0 + 5.0 * v)),
    "GaussianLikelihood_normalprior_bounds": lambda v=0: L.GaussianLikelihood(noise_prior=P.NormalPrior(0.5 + v, 1.0 + v), noise_constraint=C.GreaterThan(1e-4 * (1 + 50 * v))),
    "PeriodicKernel_lognormal": lambda v=0: K.PeriodicKernel(period_length_prior=P.LogNormalPrior(0.2 * v, 0.5 + 0.2 * v), lengthscale_constraint=C.LessThan(20.0 + 10.0 * v)),
    "ConstantMeanGrad_prior": lambda: Mn.ConstantMeanGrad(prior=P.NormalPrior(0.0, 1.0)),
    "LinearMean": lambda: Mn.LinearMean(2),
    "ConstantMean_prior": lambda: Mn.ConstantMean(constant_prior=P.NormalPrior(0.5, 2.0)),
    "SoftmaxLikelihood": lambda: L.SoftmaxLikelihood(num_features=2, num_classes=3, mixing_weights_prior=P.NormalPrior(0.0, 1.0)),
    "GaussianLikelihood_lognormal": lambda: L.GaussianLikelihood(noise_prior=P.LogNormalPrior(-1.0, 0.5), noise_constraint=C.GreaterThan(1e-3)),
    "MultitaskGaussianLikelihood_prior": lambda: L.MultitaskGaussianLikelihood(num_tasks=2, rank=1, noise_prior=_g()),
    "BernoulliLikelihood": lambda: L.BernoulliLikelihood(),
    # LKJ priors: the shape parameter eta (variant 1: another eta) and the prior over the standard deviations
    "IndexKernel_lkj_prior": lambda v=0: K.IndexKernel(num_tasks=2, rank=1, prior=P.LKJCovariancePrior(2, 1.0 + 2.0 * v, P.SmoothedBoxPrior(0.1, 2.0 + v))),
    "ScaleToBounds_int_bounds": lambda: FeatureScaler(gpytorch.utils.grid.ScaleToBounds(-1, 1)),
    "ScaleToBounds": lambda: FeatureScaler(gpytorch.utils.grid.ScaleToBounds(-1.0, 1.0)),
    # plain GridKernel; variant 1 = another grid of the same size (the grid buffers travel in the state_dict)
    "GridKernel": lambda v=0: K.GridKernel(K.RBFKernel(), grid=[torch.linspace(0, 1, 4) * (1.0 + 0.6 * v) + 0.3 * v, torch.linspace(0, 1, 4) ** (1 + v)]),
    "GridKernel_matern": lambda v=0: K.ScaleKernel(K.GridKernel(K.MaternKernel(nu=1.5), grid=[torch.linspace(-1, 1, 5) * (1.0 + 0.4 * v)])),
    # constraints carrying an initial value (applied when the constraint is registered; a round trip must not re-apply it)
    "GaussianLikelihood_initial_value": lambda v=0: L.GaussianLikelihood(noise_constraint=C.GreaterThan(1e-4, initial_value=0.05 + 0.1 * v)),
    "ConstantMean_initial_value": lambda v=0: Mn.ConstantMean(constant_constraint=C.Interval(-2.0, 2.0, initial_value=0.5 - 0.3 * v)),
    "ScaleKernel_initial_value": lambda v=0: K.ScaleKernel(K.RBFKernel(lengthscale_constraint=C.GreaterThan(0.01, initial_value=0.7 + 0.2 * v)), outputscale_constraint=C.Interval(0.01, 10.0, initial_value=2.0 + v)),
}
CATALOGUE = dict(C17_CATALOGUE)
CATALOGUE.update(EXTRA)


def build(entry, dtype, seed=0, variant=0):
    import inspect

    f = CATALOGUE[entry]
    with warnings.catch_warnings():
        warnings.simplefilter("ignore")
        torch.manual_seed(seed)
        m = f(variant) if len(inspect.signature(f).parameters) else f()
    return m.to(DT[dtype])


def generate(rng, tier, index):
    names = sorted(CATALOGUE)
    entry = names[index % len(names)] if index < 3 * len(names) else rng.choice(names)
    dtype = rng.choice(["float64", "float64", "float32"])
    n = rng.randint(1, 5) if tier == "quick" else rng.randint(2, 12)
    ops = []
    for _ in range(n):
        k = core.weighted_choice(rng, [("set", 3.0), ("sample_prior", 1.5), ("evaluate", 2.0), ("mode", 1.0), ("step", 0.7), ("freeze", 0.5)])
        if k == "set":
            ops.append({"op": "set", "p": rng.randrange(16), "seed": rng.randrange(1 << 30)})
        elif k == "sample_prior":
            ops.append({"op": "sample_prior", "which": rng.randrange(8), "seed": rng.randrange(1 << 30)})
        elif k == "evaluate":
            ops.append({"op": "evaluate", "seed": rng.randrange(1 << 30), "grad": rng.random() < 0.3})
        elif k == "mode":
            ops.append({"op": "mode", "train": rng.random() < 0.5})
        elif k == "freeze":
            ops.append({"op": "freeze", "p": rng.randrange(16), "flag": rng.random() < 0.25})
        else:
            ops.append({"op": "step", "seed": rng.randrange(1 << 30)})
        if rng.random() < 0.35:
            ops.append(gen_crash(rng))
    ops.append(gen_crash(rng, ["state_dict", "pickle", "deepcopy"][index % 3]))
    ops.append({"op": "evaluate", "seed": rng.randrange(1 << 30), "grad": False})
    return {"entry": entry, "dtype": dtype, "ops": ops}


def gen_crash(rng, how=None):
    return {"op": "crash", "how": how or rng.choice(["state_dict", "pickle", "deepcopy"]), "seed": rng.randrange(1 << 30), "proto": rng.choice([2, 4, 5])}


# ----------------------------------------------------------------------------- observation of a module


def probe_inputs(seed, dtype, d=2):
    g = torch.Generator().manual_seed(seed)
    return torch.rand(4, d, generator=g, dtype=dtype), torch.rand(3, d, generator=g, dtype=dtype)


def input_dim(module):
    if isinstance(module, K.CylindricalKernel):
        return 3
    for m in module.modules():
        a = getattr(m, "ard_num_dims", None)
        if a:
            return int(a)
    return 2


def observe(module, seed, grad=False):
    """Prediction-relevant outputs of the module on seeded probe inputs."""
    dtype = next((p.dtype for p in module.parameters()), torch.float32)
    out = {}
    torch.manual_seed(seed)
    ctx = torch.enable_grad() if grad else torch.no_grad()
    with ctx, warnings.catch_warnings():
        warnings.simplefilter("ignore")
        if isinstance(module, K.Kernel):
            d = input_dim(module)
            x1, x2 = probe_inputs(seed, dtype, d)
            if isinstance(module, K.CylindricalKernel):
                x1, x2 = x1 * 0.5, x2 * 0.5
            if isinstance(module, (K.IndexKernel,)):
                i1 = torch.randint(0, 3, (4, 1))
                out["K"] = compare.dense(module(i1, i1)).detach()
            elif isinstance(module, K.HammingIMQKernel if hasattr(K, "HammingIMQKernel") else ()):
                pass
            else:
                out["K12"] = compare.dense(module(x1, x2)).detach()
                out["K11"] = compare.dense(module(x1)).detach()
                gk = next((m for m in module.modules() if isinstance(m, K.GridKernel) and not isinstance(m, K.GridInterpolationKernel)), None)
                fg = getattr(gk, "full_grid", None)
                if gk is not None and torch.is_tensor(fg):
                    # the structured path of a GridKernel is only taken on its own grid, in eval mode
                    was = module.training
                    module.eval()
                    out["K_grid"] = compare.dense(module(fg.to(dtype))).detach()
                    module.train(was)
        elif isinstance(module, L.Likelihood if hasattr(L, "Likelihood") else ()):
            n = 4
            mean = torch.linspace(-1, 1, n, dtype=dtype)
            cov = torch.eye(n, dtype=dtype) * 0.5
            if isinstance(module, L.MultitaskGaussianLikelihood):
                from gpytorch.distributions import MultitaskMultivariateNormal

                t = module.num_tasks
                f = MultitaskMultivariateNormal(mean.unsqueeze(-1).repeat(1, t), torch.eye(n * t, dtype=dtype) * 0.5)
                out["marginal_cov"] = module(f).covariance_matrix.detach()
            elif isinstance(module, L.SoftmaxLikelihood):
                f = MultivariateNormal(mean.unsqueeze(0).repeat(2, 1), cov.unsqueeze(0).repeat(2, 1, 1))
                with gpytorch.settings.num_likelihood_samples(3):
                    out["probs"] = module(f).probs.detach()
            elif isinstance(module, L._GaussianLikelihoodBase):
                f = MultivariateNormal(mean, cov)
                out["marginal_cov"] = module(f).covariance_matrix.detach()
                out["elp"] = module.expected_log_prob(mean * 0.5, f).detach()
            else:
                f = MultivariateNormal(mean, cov)
                y = (mean > 0).to(dtype) if isinstance(module, L.BernoulliLikelihood) else (mean * 0.3 + 0.5).clamp(0.05, 0.95)
                with gpytorch.settings.num_likelihood_samples(4), gpytorch.settings.num_gauss_hermite_locs(8):
                    out["elp"] = module.expected_log_prob(y, f).detach()
        elif isinstance(module, Mn.Mean):
            x1, _ = probe_inputs(seed, dtype, 2)
            out["mean"] = module(x1).detach()
        elif isinstance(module, FeatureScaler):
            fdt = next((b.dtype for b in module.buffers() if b.is_floating_point()), torch.float32)
            x1, _ = probe_inputs(seed, fdt, 2)
            out["scaled"] = module(x1 * 7.0 - 3.0).detach()  # in training mode this also learns min / max (buffers)
    return out


def observe_priors(module, seed):
    out = {}
    for name, pmod, prior, closure, setting in sorted(module.named_priors(), key=lambda t: t[0]):
        v = closure(pmod).detach()
        try:
            out[name + ".log_prob"] = prior.log_prob(v).detach().sum()
        except Exception as e:  # noqa  value outside the support etc.
            out[name + ".log_prob"] = torch.tensor(float("nan"))
        torch.manual_seed(seed)
        try:
            out[name + ".sample"] = prior.sample().detach().to(torch.float64)
        except Exception:  # noqa
            pass
    return out


def tol_for(dtype_name):
    return 1e-6 if dtype_name == "float64" else 2e-4


# ----------------------------------------------------------------------------- execution


def execute(history):
    out = core.Outcome()
    from . import m_c20

    m_c20._capture_pristine()
    m_c20.reset_globals()
    cm = warnings.catch_warnings()
    cm.__enter__()
    warnings.simplefilter("ignore")
    try:
        entry, dtn = history["entry"], history["dtype"]
        tol = tol_for(dtn)
        A = build(entry, dtn)
        B = None
        how_last = None
        sketch = []
        compared = False
        for i, op in enumerate(history["ops"]):
            out.steps += 1
            k = op["op"]
            out.stats["op:" + k] += 1
            tag = k
            if k == "crash":
                src = B if B is not None else A
                how = op["how"]
                cls = {"family": entry, "how": how, "dtype": dtn}
                tag = "crash[%s]" % how
                try:
                    if how == "pickle":
                        new = pickle.loads(pickle.dumps(src, protocol=op["proto"]))
                    elif how == "deepcopy":
                        new = copy.deepcopy(src)
                    else:
                        buf = io.BytesIO()
                        torch.save(src.state_dict(), buf)
                        new = build(entry, dtn, seed=op["seed"] % 1000 + 1, variant=1)
                        g = torch.Generator().manual_seed(op["seed"])
                        with torch.no_grad():
                            for p in new.parameters():
                                p.add_(0.3 * torch.randn(p.shape, generator=g, dtype=p.dtype))
                        new.train(src.training)
                        dirty = False
                        if op["seed"] % 5 < 2:
                            # a used target: it has been evaluated (in both modes) before the checkpoint is loaded into it
                            try:
                                observe(new, op["seed"] + 1)
                                out.stats["probe:dirty_target"] += 1
                                dirty = True
                            except Exception:  # noqa
                                pass
                            new.train(src.training)
                        new.load_state_dict(torch.load(io.BytesIO(buf.getvalue())))
                    out.stats["fault:crash_restore_" + how] += 1
                    out.stats["probe:restored_" + how] += 1
                except Exception as e:  # noqa
                    msg = str(e)
                    if how == "state_dict" and locals().get("dirty") and isinstance(e, RuntimeError) and ("Missing key(s)" in msg or "Unexpected key(s)" in msg):
                        # a used target may hold (or lack) a lazily created buffer that the checkpoint lacks (or holds), e.g. the
                        # RFF weights of a kernel built without num_dims: torch rejects the strict load explicitly - nothing to judge
                        out.stats["probe:dirty_target_strict_key_mismatch"] += 1
                        sketch.append(tag + "?")
                        continue
                    kind = "non_leaf_deepcopy" if ("graph leaves" in msg or "view was created in no_grad mode" in msg) else ("local_object" if "local object" in msg or "Can't pickle" in msg else type(e).__name__)
                    out.violate("snapshot_failed", i, "%s of %s raised %s(%s)" % (how, entry, type(e).__name__, msg[:160]), exc_kind=kind, model_kind=("grid_module" if "Grid" in entry or "grid" in entry.lower() else "module"), defined_in=core.local_object_site(msg) if kind == "local_object" else "n/a", **cls)
                    sketch.append(tag + "!")
                    continue
                if how in ("pickle", "deepcopy"):
                    from .m_c18 import compare_kinds

                    dk = compare_kinds(src, new)
                    if dk:
                        out.violate("kind_not_carried", i, "%s of %s: %s" % (how, entry, dk[1]), what=dk[0], **cls)
                else:
                    # requires_grad is not part of a state_dict: the user freezes the same parameters again
                    src_rg = dict((n, p.requires_grad) for n, p in src.named_parameters())
                    for n, p in new.named_parameters():
                        if n in src_rg:
                            p.requires_grad_(src_rg[n])
                B = new
                how_last = how
                check_pair(out, i, A, B, entry, dtn, how, tol, op["seed"], "right after the restore")
                compared = True
                # the copy is independent of the original: sampling on the copy changes the copy, not the original
                priors = sorted(B.named_priors(), key=lambda t: t[0])
                if priors and how in ("pickle", "deepcopy"):
                    name, pmod, prior, closure, setting = priors[op["seed"] % len(priors)]
                    if setting is not None:
                        a_before = {n: p.detach().clone() for n, p in A.state_dict().items()}
                        b_before = closure(pmod).detach().clone()
                        torch.manual_seed(op["seed"])
                        modes = (A.training, B.training)
                        A.train()
                        B.train()  # parameter edits happen in training mode (see apply_op)
                        try:
                            pmod.sample_from_prior(name.rsplit(".", 1)[-1])
                            out.stats["probe:copy_independence_checked"] += 1
                            changedA = [n for n, p in A.state_dict().items() if not torch.equal(torch.nan_to_num(p), torch.nan_to_num(a_before[n]))]
                            if changedA:
                                out.violate("copy_not_independent", i, "sample_from_prior(%s) on the %s copy changed the original's %s" % (name, how, changedA[:3]), **cls)
                            # keep A and B in lock-step: do the same on the original
                            pa = dict((n, (m, pr, c, s)) for n, m, pr, c, s in A.named_priors())
                            torch.manual_seed(op["seed"])
                            pa[name][0].sample_from_prior(name.rsplit(".", 1)[-1])
                        except (RuntimeError, ValueError, TypeError, AttributeError):
                            out.stats["rejected:sample_from_prior_on_copy"] += 1
                            # the rejected sample may have left either side unchanged; re-synchronise through the public API
                            B.load_state_dict(A.state_dict())
                        finally:
                            A.train(modes[0])
                            B.train(modes[1])
            else:
                for which, M in (("A", A), ("B", B)):
                    if M is None:
                        continue
                    try:
                        apply_op(out, M, op, entry)
                    except Exception as e:  # noqa
                        out.stats["rejected:%s_%s" % (k, type(e).__name__)] += 1
                        if which == "B":
                            out.violate("lockstep_status_differs", i, "%s failed on the restored module (%s: %s) after the original accepted it" % (k, type(e).__name__, str(e)[:120]), family=entry, how=how_last, dtype=dtn)
                        else:
                            break
                if B is not None and k == "sample_prior" and tol < tol_for("float32"):
                    # A prior built in float32 and moved to float64 keeps sampling in float32 (its base distribution is not a
                    # buffer), a prior restored from a state dict samples in float64: the same sample drawn on the original and
                    # on the restored module agrees to float32 rounding only, which sensitive kernels (periodic) amplify
                    tol = tol_for("float32")
                    out.stats["probe:float32_precision_after_sample_on_both"] += 1
                if B is not None:
                    check_pair(out, i, A, B, entry, dtn, how_last, tol, op.get("seed", 1), "after " + k)
            out.transitions.add("%s->%s" % (entry.split("_")[0], tag))
            sketch.append(tag)
        try:
            for q, v in sorted(observe(A, 1).items()):
                out.log.add(q, v)
        except Exception as e:  # noqa  (an entry that cannot be evaluated on the probe inputs is compared on state and priors only)
            out.log.add("observe_raises", type(e).__name__)
        out.nontrivial = compared
        out.sketch = "%s:%s:%s" % (entry, dtn, ">".join(sketch))
    finally:
        cm.__exit__(None, None, None)
        m_c20.reset_globals()
    return out


def apply_op(out, M, op, entry):
    k = op["op"]
    if k in ("set", "sample_prior", "step"):
        # parameter edits are made in training mode (eval-mode kernel caches such as GridKernel._cached_kernel_mat are
        # legitimately stale after an eval-mode edit - C03 excludes those); the mode switch is the documented invalidation
        was = M.training
        M.train()
        try:
            _edit(out, M, op)
        finally:
            M.train(was)
        return
    _edit(out, M, op)


def _edit(out, M, op):
    k = op["op"]
    if k == "set":
        plist = params_of(M)
        if not plist:
            return
        name, owner, raw, pub = plist[op["p"] % len(plist)]
        c = owner.constraint_for_parameter_name(raw)
        cur = getattr(owner, pub).detach()
        g = torch.Generator().manual_seed(op["seed"])
        r = torch.rand(cur.shape, generator=g, dtype=cur.dtype) * 0.8 + 0.1
        lo, hi = c.lower_bound.to(cur.dtype), c.upper_bound.to(cur.dtype)
        if torch.isfinite(lo).all() and torch.isfinite(hi).all():
            v = lo + (hi - lo) * r
        elif torch.isfinite(lo).all():
            v = lo + torch.exp(2.0 * (r - 0.5))
        else:
            v = hi - torch.exp(2.0 * (r - 0.5))
        setattr(owner, pub, v.expand(cur.shape).clone())
    elif k == "sample_prior":
        priors = sorted(M.named_priors(), key=lambda t: t[0])
        if not priors:
            return
        name, pmod, prior, closure, setting = priors[op["which"] % len(priors)]
        if setting is None:
            return
        torch.manual_seed(op["seed"])
        try:
            pmod.sample_from_prior(name.rsplit(".", 1)[-1])
        except (RuntimeError, ValueError, TypeError, AttributeError):
            out.stats["rejected:sample_from_prior"] += 1
    elif k == "evaluate":
        was = M.training
        observe(M, op["seed"], grad=op.get("grad", False))
        M.train(was)
    elif k == "mode":
        M.train(op["train"])
    elif k == "step":
        g = torch.Generator().manual_seed(op["seed"])
        with torch.no_grad():
            for p in M.parameters():
                delta = 0.2 * torch.randn(p.shape, generator=g, dtype=p.dtype)
                if p.requires_grad:  # like an optimiser: parameters held fixed do not move
                    p.add_(delta)
    elif k == "freeze":
        named = sorted(M.named_parameters(), key=lambda t: t[0])
        if named:
            named[op["p"] % len(named)][1].requires_grad_(bool(op["flag"]))
    else:
        raise core.HarnessError(k)


def check_pair(out, i, A, B, entry, dtn, how, tol, seed, when):
    cls = {"family": entry, "how": how, "dtype": dtn}
    out.stats["oracle_comparisons"] += 1
    sa, sb = A.state_dict(), B.state_dict()
    if sorted(sa) != sorted(sb):
        out.violate("state_differs", i, "%s (%s): state_dict keys differ: %s" % (when, how, sorted(set(sa) ^ set(sb))[:4]), key="keys", **cls)
    else:
        for k2 in sorted(sa):
            x, y = sa[k2], sb[k2]
            if x.shape != y.shape or x.dtype != y.dtype:
                out.violate("state_differs", i, "%s (%s): state_dict[%s] shape/dtype differ" % (when, how, k2), key=k2.rsplit(".", 1)[-1], **cls)
                break
            ok, diff, scale = compare.tensor_diff(x.detach().to(torch.float64), y.detach().to(torch.float64)) if x.is_floating_point() else (True, 0.0 if torch.equal(x, y) else float("inf"), 1.0)
            if not ok or not diff <= tol * scale:
                out.violate("state_differs", i, "%s (%s): state_dict[%s] differs by %.3g" % (when, how, k2, diff), key=k2.rsplit(".", 1)[-1], **cls)
                break
    if A.training != B.training:
        out.violate("mode_not_carried", i, "%s (%s): training flag %s vs %s" % (when, how, A.training, B.training), **cls)
    wasA, wasB = A.training, B.training
    try:
        oa = observe(A, seed)
        ea = None
    except Exception as e:  # noqa
        oa, ea = {}, type(e).__name__
    try:
        ob = observe(B, seed)
        eb = None
    except Exception as e:  # noqa
        ob, eb = {}, type(e).__name__ + ": " + str(e)[:100]
    A.train(wasA)
    B.train(wasB)
    if (ea is None) != (eb is None):
        out.violate("output_raises", i, "%s (%s): evaluating the original %s, the restored module %s" % (when, how, "raised " + ea if ea else "worked", "raised " + eb if eb else "worked"), **cls)
    elif oa:
        out.stats["probe:output_compared"] += 1
        bad, mx = compare.compare_obs(oa, ob, tol)
        if bad:
            out.violate("output_differs", i, "%s (%s): %s of the restored module differs by %.3g (scale %.3g)" % (when, how, bad[0][0], bad[0][1], bad[0][2]), quantity=bad[0][0], **cls)
        else:
            out.note_diff(dtn, mx)
    pa, pb = observe_priors(A, seed), observe_priors(B, seed)
    if pa or pb:
        out.stats["probe:prior_compared"] += 1
        if sorted(pa) != sorted(pb):
            out.violate("prior_differs", i, "%s (%s): registered priors differ: %s" % (when, how, sorted(set(pa) ^ set(pb))[:4]), quantity="names", **cls)
        else:
            bad, mx = compare.compare_obs(pa, pb, max(tol, 2e-4 if dtn == "float32" else tol))
            if bad:
                out.violate("prior_differs", i, "%s (%s): %s differs by %.3g between original and restored module" % (when, how, bad[0][0], bad[0][1]), quantity=bad[0][0].rsplit(".", 1)[-1], prior=bad[0][0].rsplit(".", 2)[-2] if "." in bad[0][0] else "", **cls)


def render(history):
    lines = ["# C18 (module level) history; entry = %s, dtype = %s" % (history["entry"], history["dtype"])]
    for i, op in enumerate(history["ops"]):
        o = dict(op)
        k = o.pop("op")
        lines.append("%2d: %s(%s)" % (i, k, ", ".join("%s=%r" % kv for kv in sorted(o.items()))))
    lines.append("# crash: B = restore(snapshot(B or A)); every later op runs on A and B; state_dict, outputs and priors are compared")
    return "\n".join(lines)


def simplify(history):
    if history["dtype"] != "float64":
        h = copy.deepcopy(history)
        h["dtype"] = "float64"
        yield h


def budget(tier):
    if tier == "quick":
        return {"runs": 1500, "wall": 150, "digest_sample": 16}
    return {"runs": 100000, "wall": 1800, "digest_sample": 64}
