"""C17 (history clauses) - constraints, setters and priors under operation sequences.
Every module class that registers a constraint is driven through seeded sequences of
set / rejected set / initialize / adversarial optimiser steps / constraint replacement /
sample_from_prior / load_state_dict (good, failing) / dtype casts / pickle, and checked after
every step against a map  parameter -> last accepted value  and a bounds table.
DESIGN.md section 4.4."""
from __future__ import annotations

import copy
import io
import json
import math
import pickle
import warnings

import gpytorch
import torch
from gpytorch import constraints as C
from gpytorch import kernels as K
from gpytorch import likelihoods as L
from gpytorch import means as Mn
from gpytorch import priors as P

from . import core

PROPERTY = "C17"
NAME = "c17"
RULE = (
    "a case is one history: module class + dtype + initial constraint set-up + sequence of operations on its constrained "
    "parameters; non-trivial = at least one accepted assignment followed by at least one other operation (on the same or "
    "another parameter) and a read-back check, or a rejected assignment followed by the unchanged-state check; distinct = "
    "distinct canonical sequence of (op kind, value kind, constraint class) per module class and dtype"
)
STUBBED = ["adversarial gradients written into .grad before an optimiser step (diverging optimiser)"]
ASSUMPTIONS = [
    "only the history clauses of C17 are decided (bounds after any sequence, setter round trip, frame condition, rejection leaves state unchanged, "
    "prior closures read the current value, sample_from_prior stores the sample); monotonicity / bijectivity are sampled only at visited raw values",
    "read-back tolerance: 2e-5 (float32) / 1e-10 (float64) of max(|value|, finite |bounds|); 4 ulp slack when comparing with a bound",
    "an assignment exactly at a finite bound may be accepted (reads back the bound) or rejected (state unchanged)",
    "an assignment rejected by the *prior's* support check (ValueError) is outside C17's 'out-of-bounds' clause: the value may already be stored",
]
EXPECTED_PROBES = {
    "quick": ["rejected_assignment_state_unchanged", "frame_condition_checked", "sample_from_prior_checked", "huge_raw_after_step", "constraint_replaced", "tensor_bounds"],
    "thorough": ["rejected_assignment_state_unchanged", "frame_condition_checked", "sample_from_prior_checked", "huge_raw_after_step", "constraint_replaced", "tensor_bounds"],
}

DTYPES = {"float32": torch.float32, "float64": torch.float64}


# ----------------------------------------------------------------------------- catalogue


def _gamma():
    return P.GammaPrior(2.0, 3.0)


def _lognormal():
    return P.LogNormalPrior(0.0, 0.5)


CATALOGUE = {
    "RBFKernel": lambda: K.RBFKernel(lengthscale_prior=_gamma()),
    "RBFKernel_ard": lambda: K.RBFKernel(ard_num_dims=3, lengthscale_prior=_lognormal()),
    "MaternKernel_batch": lambda: K.MaternKernel(nu=1.5, ard_num_dims=2, batch_shape=torch.Size([2])),
    "RQKernel": lambda: K.RQKernel(lengthscale_prior=_gamma()),
    "PeriodicKernel": lambda: K.PeriodicKernel(period_length_prior=_lognormal(), lengthscale_prior=_gamma()),
    "CosineKernel": lambda: K.CosineKernel(period_length_prior=_gamma()),
    "LinearKernel": lambda: K.LinearKernel(variance_prior=_gamma()),
    "PolynomialKernel": lambda: K.PolynomialKernel(power=2, offset_prior=_gamma()),
    "ScaleKernel": lambda: K.ScaleKernel(K.RBFKernel(), outputscale_prior=_gamma()),
    "ScaleKernel_batch": lambda: K.ScaleKernel(K.MaternKernel(batch_shape=torch.Size([2])), batch_shape=torch.Size([2])),
    "ConstantKernel": lambda: K.ConstantKernel(constant_prior=_gamma()),
    "SpectralMixtureKernel": lambda: K.SpectralMixtureKernel(num_mixtures=2, ard_num_dims=1),
    "IndexKernel": lambda: K.IndexKernel(num_tasks=3, rank=1),
    "MultitaskKernel": lambda: K.MultitaskKernel(K.RBFKernel(), num_tasks=2, rank=1),
    "PiecewisePolynomialKernel": lambda: K.PiecewisePolynomialKernel(q=2),
    "RFFKernel": lambda: K.RFFKernel(num_samples=4, num_dims=2),
    "CylindricalKernel": lambda: K.CylindricalKernel(3, K.RBFKernel()),
    "CylindricalKernel_priors": lambda: K.CylindricalKernel(3, K.RBFKernel(), angular_weights_prior=_gamma(), alpha_prior=_gamma(), beta_prior=_gamma()),
    "StudentTLikelihood_priors": lambda: L.StudentTLikelihood(noise_prior=_gamma(), deg_free_prior=P.GammaPrior(4.0, 1.0)),
    "ArcKernel": lambda: K.ArcKernel(K.MaternKernel(nu=2.5), angle_prior=P.GammaPrior(0.5, 1), radius_prior=P.GammaPrior(3, 2), ard_num_dims=2),
    "SharedConstraintObject": lambda: (lambda c: K.ScaleKernel(K.ProductKernel(K.RBFKernel(lengthscale_constraint=c), K.MaternKernel(nu=2.5, lengthscale_constraint=c))))(C.Interval(0.1, 2.0)),
    "ProductOfKernels": lambda: K.RBFKernel() * K.PeriodicKernel() + K.ScaleKernel(K.LinearKernel()),
    "GaussianLikelihood": lambda: L.GaussianLikelihood(noise_prior=_gamma()),
    "GaussianLikelihood_batch": lambda: L.GaussianLikelihood(batch_shape=torch.Size([3])),
    "FixedNoiseGaussianLikelihood": lambda: L.FixedNoiseGaussianLikelihood(noise=torch.full((4,), 0.1), learn_additional_noise=True),
    "MultitaskGaussianLikelihood": lambda: L.MultitaskGaussianLikelihood(num_tasks=2, rank=0),
    "MultitaskGaussianLikelihood_r1": lambda: L.MultitaskGaussianLikelihood(num_tasks=3, rank=1),
    "StudentTLikelihood": lambda: L.StudentTLikelihood(),
    "LaplaceLikelihood": lambda: L.LaplaceLikelihood(),
    "BetaLikelihood": lambda: L.BetaLikelihood(),
    "ConstantMean_constrained": lambda: Mn.ConstantMean(constant_constraint=C.Interval(-2.0, 2.0), constant_prior=P.NormalPrior(0.0, 0.5)),
}


def _late(module, specs):
    """Register constraints after construction through the public register_constraint (ConstantMean is the module
    whose constraint is optional: built without one, given one later)."""
    for path, raw, constraint in specs:
        owner = module.get_submodule(path) if path else module
        owner.register_constraint(raw, constraint)
    return module


CATALOGUE.update(
    {
        "ConstantMean_late_constraint": lambda: _late(Mn.ConstantMean(constant_prior=P.NormalPrior(0.0, 0.5)), [("", "raw_constant", C.Interval(-2.0, 2.0))]),
        "ConstantMean_late_constraint_batch": lambda: _late(Mn.ConstantMean(batch_shape=torch.Size([2])), [("", "raw_constant", C.GreaterThan(-1.0))]),
        "RBFKernel_late_constraint": lambda: _late(K.ScaleKernel(K.RBFKernel(lengthscale_prior=_gamma())), [("base_kernel", "raw_lengthscale", C.Interval(0.05, 3.0)), ("", "raw_outputscale", C.LessThan(5.0))]),
    }
)


def _shared_prior():
    """One Prior instance registered for two parameters (a common shortcut: p = GammaPrior(..); use p twice)."""
    p = _gamma()
    return K.ScaleKernel(K.RBFKernel(lengthscale_prior=p), outputscale_prior=p)


def _shared_prior_named():
    p = _lognormal()
    m = K.ScaleKernel(K.PeriodicKernel())
    m.register_prior("outputscale_prior", p, "outputscale")
    m.base_kernel.register_prior("lengthscale_prior", p, "lengthscale")
    m.base_kernel.register_prior("period_length_prior", p, "period_length")
    return m


CATALOGUE.update({"SharedPriorObject": _shared_prior, "SharedPriorObject_named": _shared_prior_named})
# further modules with constrained parameters / priors (audit of the classes the catalogue did not hold)
CATALOGUE.update(
    {
        "NewtonGirardAdditiveKernel": lambda: K.NewtonGirardAdditiveKernel(K.RBFKernel(), num_dims=3, max_degree=2),
        "MultitaskGaussianLikelihood_taskprior": lambda: L.MultitaskGaussianLikelihood(num_tasks=2, rank=1, task_prior=P.LKJCovariancePrior(2, 1.0, P.SmoothedBoxPrior(0.1, 2.0))),
        "ConstantKernel_batch": lambda: K.ConstantKernel(batch_shape=torch.Size([2]), constant_prior=_gamma()),
    }
)
# batch size equal to the size of the trailing dimension (tasks / mixtures): a per-task vector must not be lined up with the batch
CATALOGUE.update(
    {
        "IndexKernel_batch_eq_tasks": lambda: K.IndexKernel(num_tasks=3, rank=1, batch_shape=torch.Size([3])),
        "MultitaskGaussianLikelihood_batch_eq_tasks": lambda: L.MultitaskGaussianLikelihood(num_tasks=2, rank=0, batch_shape=torch.Size([2])),
        "SpectralMixtureKernel_batch_eq_mixtures": lambda: K.SpectralMixtureKernel(num_mixtures=2, ard_num_dims=1, batch_shape=torch.Size([2])),
        "RBFKernel_ard_batch_eq_dims": lambda: K.RBFKernel(ard_num_dims=2, batch_shape=torch.Size([2])),
    }
)


def _named(module, specs):
    """Register priors through the public name-based API: register_prior(name, prior, "<param>")."""
    for path, pub, prior in specs:
        owner = module.get_submodule(path) if path else module
        owner.register_prior(pub + "_prior", prior, pub)
    return module


CATALOGUE.update(
    {
        "GaussianLikelihood_namedprior": lambda: _named(L.GaussianLikelihood(), [("noise_covar", "noise", _gamma())]),
        "ScaleRBF_namedprior": lambda: _named(
            K.ScaleKernel(K.RBFKernel(ard_num_dims=2)), [("", "outputscale", _gamma()), ("base_kernel", "lengthscale", _lognormal())]
        ),
        "PeriodicKernel_namedprior": lambda: _named(K.PeriodicKernel(), [("", "period_length", _lognormal()), ("", "lengthscale", _gamma())]),
    }
)


def build(entry, dtype, applied=()):
    """Construct the module; `applied` = constraint replacements (part of the architecture) to re-apply."""
    with warnings.catch_warnings():
        warnings.simplefilter("ignore")
        torch.manual_seed(0)
        m = CATALOGUE[entry]()
    m = m.to(DTYPES[dtype])
    for pidx, op in applied:
        plist = params_of(m)
        name, owner, raw, pub = plist[pidx % len(plist)]
        c = constraint_of(owner, raw)
        shape = tuple(getattr(owner, pub).shape)
        newc, _ = make_constraint(op, c, shape, getattr(owner, raw).dtype)
        try:
            owner.register_constraint(raw, newc.to(getattr(owner, raw).dtype))
        except (RuntimeError, ValueError):
            pass
    return m


def params_of(module):
    """[(full raw name, owner module, raw local name, public name)] for constrained parameters with a public setter.
    Built from named_parameters() and the owner's registered constraint (not from named_parameters_and_constraints(),
    whose consistency with them is itself checked in check_all)."""
    out = []
    for name, param in sorted(module.named_parameters(), key=lambda t: t[0]):
        constraint = module.constraint_for_parameter_name(name)
        if constraint is None:
            continue
        if "." in name:
            owner_path, raw = name.rsplit(".", 1)
            owner = module.get_submodule(owner_path)
        else:
            owner, raw = module, name
        if not raw.startswith("raw_"):
            continue
        pub = raw[4:]
        prop = getattr(type(owner), pub, None)
        if not isinstance(prop, property) or prop.fset is None:
            continue
        out.append((name, owner, raw, pub))
    return out


def constraint_of(owner, raw):
    return owner.constraint_for_parameter_name(raw)


def ckind(c):
    return type(c).__name__


# ----------------------------------------------------------------------------- generation


def generate(rng, tier, index):
    names = sorted(CATALOGUE)
    entry = names[index % len(names)] if index < 2 * len(names) else rng.choice(names)
    dtype = rng.choice(["float32", "float64"])
    thorough = tier == "thorough"
    n_ops = rng.randint(3, 12) if not thorough else rng.randint(5, 40)
    kinds = {
        "set": 5.0,
        "set_bad": 2.0,
        "init_pub": 1.0,
        "init_raw": 1.0,
        "step": 1.2,
        "replace_constraint": 1.0,
        "sample_prior": 1.0,
        "load": 0.8,
        "load_bad": 0.5,
        "cast": 0.4,
        "pickle": 0.4,
        "deepcopy": 0.3,
    }
    for k in list(kinds):
        if k != "set" and rng.random() < 0.3:
            del kinds[k]
    items = sorted(kinds.items())
    setup = []
    for _ in range(rng.choice([0, 0, 1, 2])):
        setup.append(gen_op(rng, "replace_constraint"))
    ops = [gen_op(rng, "set")]
    while len(ops) < n_ops:
        ops.append(gen_op(rng, core.weighted_choice(rng, items)))
    return {"entry": entry, "dtype": dtype, "setup": setup, "ops": ops}


def gen_op(rng, k):
    p = rng.randrange(16)
    if k == "set":
        return {"op": k, "p": p, "vk": rng.choice(["interior", "interior", "near_lower", "near_upper", "at_lower", "at_upper", "huge", "tiny"]), "u": rng.random(), "as_float": rng.random() < 0.3, "seed": rng.randrange(1 << 30), "drop_lead": rng.choice([0, 0, 0, 1, 2])}
    if k == "set_bad":
        return {"op": k, "p": p, "bk": rng.choice(["below", "above", "nan", "shape", "inf", "neg_inf"]), "u": rng.random()}
    if k in ("init_pub", "init_raw"):
        return {"op": k, "p": p, "u": rng.random(), "seed": rng.randrange(1 << 30), "as_float": rng.random() < 0.3, "dotted": rng.random() < 0.5}
    if k == "step":
        return {"op": k, "dirs": [rng.choice([-1, 0, 1]) for _ in range(16)], "mag": rng.choice([1.0, 1e3, 1e30]), "opt": rng.choice(["sgd", "adam"])}
    if k == "replace_constraint":
        return {"op": k, "p": p, "ck": rng.choice(["interval", "greater", "less", "positive", "same_class"]), "lo": rng.choice([1e-3, 0.05, 0.5]), "width": rng.choice([0.5, 3.0, 50.0]), "tensor": rng.random() < 0.35, "initial": rng.random() < 0.3, "u": rng.random()}
    if k == "sample_prior":
        return {"op": k, "which": rng.randrange(8), "seed": rng.randrange(1 << 30)}
    if k == "load":
        return {"op": k, "seed": rng.randrange(1 << 30)}
    if k == "load_bad":
        return {"op": k, "kind": rng.choice(["missing", "unexpected", "misshaped"]), "pick": rng.randrange(1 << 16), "seed": rng.randrange(1 << 30)}
    if k == "cast":
        return {"op": k, "to": rng.choice(["float32", "float64"])}
    if k in ("pickle", "deepcopy"):
        return {"op": k}
    raise core.HarnessError(k)


# ----------------------------------------------------------------------------- reference model + checks


def finite(x):
    return bool(torch.isfinite(x).all())


def bounds_of(c):
    return c.lower_bound.detach().clone(), c.upper_bound.detach().clone()


def rtol_for(dtype):
    return 2e-5 if dtype == torch.float32 else 1e-10


def value_for(c, shape, dtype, vk, u, seed):
    """A value of the requested kind, as a tensor of `shape`, computed from the *current* bounds."""
    lo, hi = c.lower_bound.to(dtype), c.upper_bound.to(dtype)
    lo_f, hi_f = torch.isfinite(lo), torch.isfinite(hi)
    g = torch.Generator().manual_seed(seed)
    r = torch.rand(shape, generator=g, dtype=dtype) * 0.8 + 0.1
    lo_b, hi_b = lo.expand(shape) if lo.numel() > 1 else lo, hi.expand(shape) if hi.numel() > 1 else hi
    eps = torch.finfo(dtype).eps
    both = bool(lo_f.all() and hi_f.all())
    only_lo = bool(lo_f.all() and not hi_f.any())
    only_hi = bool(hi_f.all() and not lo_f.any())
    if both:
        span = hi_b - lo_b
        base = {
            "interior": lo_b + span * r,
            "near_lower": lo_b + span * (64 * eps),
            "near_upper": hi_b - span * (64 * eps),
            "at_lower": lo_b + torch.zeros(shape, dtype=dtype),
            "at_upper": hi_b + torch.zeros(shape, dtype=dtype),
            "huge": hi_b - span * 1e-3 * r,
            "tiny": lo_b + span * 1e-3 * r,
        }[vk]
    elif only_lo:
        base = {
            "interior": lo_b + torch.exp(3.0 * (r - 0.5)),
            "near_lower": lo_b + (lo_b.abs() + 1.0) * (64 * eps),
            "near_upper": lo_b + 1e3 * r,
            "at_lower": lo_b + torch.zeros(shape, dtype=dtype),
            "at_upper": lo_b + 10.0 * r,
            "huge": lo_b + (1e6 if dtype == torch.float32 else 1e12) * r,
            "tiny": lo_b + 1e-4 * r,
        }[vk]
    elif only_hi:
        base = {
            "interior": hi_b - torch.exp(3.0 * (r - 0.5)),
            "near_lower": hi_b - 1e3 * r,
            "near_upper": hi_b - (hi_b.abs() + 1.0) * (64 * eps),
            "at_lower": hi_b - 10.0 * r,
            "at_upper": hi_b + torch.zeros(shape, dtype=dtype),
            "huge": hi_b - (1e6 if dtype == torch.float32 else 1e12) * r,
            "tiny": hi_b - 1e-4 * r,
        }[vk]
    else:  # unconstrained / mixed: not generated by this machine
        base = torch.zeros(shape, dtype=dtype) + r
    at_bound = vk in ("at_lower", "at_upper") and (both or (only_lo and vk == "at_lower") or (only_hi and vk == "at_upper"))
    return base.expand(shape).clone(), at_bound


class Ref:
    """Reference model: parameter -> last accepted value (None = unknown), checked against the live module."""

    def __init__(self):
        self.value = {}
        self.loose = set()  # parameters whose accepted value is only known to float32 precision


def read(owner, pub):
    return getattr(owner, pub).detach().clone()


def snapshot(module):
    return {k: v.detach().clone() for k, v in module.state_dict().items()}


def same_state(a, b):
    if sorted(a) != sorted(b):
        return "state_dict keys changed"
    for k in sorted(a):
        x, y = a[k], b[k]
        if x.shape != y.shape or x.dtype != y.dtype:
            return "%s changed shape/dtype" % k
        if not torch.equal(torch.nan_to_num(x, nan=12345.0), torch.nan_to_num(y, nan=12345.0)):
            return "%s changed" % k
    return None


def check_all(out, i, module, ref, entry, dtype_name, where):
    """Invariants (i), (ii)+frame condition, (v), (vi) after every step."""
    dtype = None
    plist = params_of(module)
    for name, owner, raw, pub in plist:
        c = constraint_of(owner, raw)
        rawp = getattr(owner, raw).detach()
        dtype = rawp.dtype
        val = read(owner, pub)
        cls = {"family": entry, "param": pub, "constraint": ckind(c), "dtype": str(dtype).replace("torch.", "")}
        out.stats["oracle_comparisons"] += 1
        # (i) inside the closed interval, not NaN unless the raw value is NaN
        raw_ok = bool(torch.isfinite(rawp).all())
        if raw_ok:
            if torch.isnan(val).any():
                out.violate("nan_from_finite_raw", i, "%s.%s reads NaN although its raw value is finite (%s)" % (entry, pub, where), **cls)
            else:
                lo, hi = c.lower_bound.to(val.dtype), c.upper_bound.to(val.dtype)
                eps = torch.finfo(val.dtype).eps
                slack_lo = 4 * eps * torch.where(torch.isfinite(lo), lo.abs().clamp_min(1e-30), torch.zeros_like(lo))
                slack_hi = 4 * eps * torch.where(torch.isfinite(hi), hi.abs().clamp_min(1e-30), torch.zeros_like(hi))
                if bool((val < lo - slack_lo).any()) or bool((val > hi + slack_hi).any()):
                    out.violate(
                        "out_of_bounds_read",
                        i,
                        "%s.%s reads %s outside its bounds [%s, %s] (%s; raw min %.3g max %.3g)"
                        % (entry, pub, _fmt(val), _fmt(lo), _fmt(hi), where, float(rawp.min()), float(rawp.max())),
                        **cls,
                    )
        # (ii) last accepted value reads back; doubles as the frame condition for the parameters not operated on
        want = ref.value.get(name)
        if want is not None:
            out.stats["probe:frame_condition_checked"] += 1
            w = want.to(val.dtype)
            scale = max(float(w.abs().max()), *(float(b.abs().max()) for b in (c.lower_bound, c.upper_bound) if finite(b)), 1e-30)
            if val.shape == w.shape:
                from . import compare as _cmp

                _ok, diff, _ = _cmp.tensor_diff(val, w)  # equal infinities / NaN positions count as equal
            else:
                diff = float("inf")
            if not math.isfinite(scale):
                scale = 1.0
            rt = rtol_for(torch.float32) if name in ref.loose else rtol_for(val.dtype)
            if not diff <= rt * scale:
                out.violate(
                    "readback",
                    i,
                    "%s.%s reads %s but the last accepted value is %s (diff %.3g, scale %.3g; %s)" % (entry, pub, _fmt(val), _fmt(w), diff, scale, where),
                    **cls,
                )
                ref.value[name] = None
            else:
                out.note_diff(str(val.dtype).replace("torch.", ""), diff / scale)
        # (vi) visited raw value: inverse(transform(raw)) ~ raw where not saturated; transform monotone over visited raws
        if raw_ok and float(rawp.abs().max()) < 20.0:
            # compared in value space: near saturation the raw value is ill-determined by the value (log of a
            # cancelled difference), while transform(inverse(value)) == value must still hold to rounding
            v0 = c.transform(rawp)
            back = c.inverse_transform(v0)
            if finite(back) and finite(v0):
                v1 = c.transform(back)
                sc = max(float(v0.abs().max()), *(float(b.abs().max()) for b in (c.lower_bound, c.upper_bound) if finite(b)), 1e-30)
                d = float((v1 - v0).abs().max())
                if not d <= rtol_for(val.dtype) * sc:
                    out.violate("inverse_not_inverse", i, "%s.%s: transform(inverse_transform(v)) differs from v = transform(raw) by %.3g (scale %.3g)" % (entry, pub, d, sc), **cls)
    # the three public ways of finding a parameter's constraint agree: the iterator, the lookup by (dotted) name
    # from the root, and the constraint registered on the owning module
    reported = {n: c for n, p, c in module.named_parameters_and_constraints()}
    for name, owner, raw, pub in plist:
        by_name = module.constraint_for_parameter_name(name)
        on_owner = getattr(owner, raw + "_constraint", None)
        if name not in reported or reported[name] is not by_name or by_name is not on_owner:
            out.violate(
                "constraint_lookup_inconsistent",
                i,
                "%s: named_parameters_and_constraints() reports %s for %s, constraint_for_parameter_name gives %s, the owner has %s"
                % (entry, type(reported.get(name)).__name__, name, type(by_name).__name__, type(on_owner).__name__),
                family=entry,
                param=pub,
            )
    # every registration of a prior is reported by named_priors() (the MLLs add the log densities of what it yields);
    # reference: the registration store of each gpytorch module in the tree
    reported_p = set((id(pmod), pname.rsplit(".", 1)[-1]) for pname, pmod, prior, closure, setting in module.named_priors())
    for mname, sub in module.named_modules():
        for local, reg in sorted(getattr(sub, "_priors", {}).items()):
            if reg[0] is not None and (id(sub), local) not in reported_p:
                out.violate(
                    "registered_prior_not_reported",
                    i,
                    "%s: prior %r registered on %s (%s) is not yielded by named_priors()" % (entry, local, mname or "<root>", type(reg[0]).__name__),
                    family=entry,
                    prior=type(reg[0]).__name__,
                )
    # (v) prior closures read the current value
    for pname, pmod, prior, closure, setting in sorted(module.named_priors(), key=lambda t: t[0]):
        try:
            cv = closure(pmod)
        except Exception as e:  # noqa
            out.violate("prior_closure_raises", i, "closure of prior %s raised %s" % (pname, type(e).__name__), family=entry, prior=type(prior).__name__)
            continue
        if not torch.is_tensor(cv):
            out.violate("prior_closure_raises", i, "closure of prior %s returns a %s, not the value of the parameter" % (pname, type(cv).__name__), family=entry, prior=type(prior).__name__)
            continue
        try:
            prior.log_prob(cv)
        except (TypeError, AttributeError) as e:
            out.violate("prior_closure_raises", i, "log density of prior %s at the closure's value raised %s(%s)" % (pname, type(e).__name__, str(e)[:80]), family=entry, prior=type(prior).__name__)
            continue
        except Exception:  # noqa  (ValueError of torch's support validation etc.: a value outside the support)
            pass
        local = pname.rsplit(".", 1)[-1]
        pub = local[: -len("_prior")] if local.endswith("_prior") else None
        if pub and isinstance(getattr(type(pmod), pub, None), property):
            cur = getattr(pmod, pub)
            if cv.shape != cur.shape or not torch.equal(torch.nan_to_num(cv.detach()), torch.nan_to_num(cur.detach())):
                out.violate("prior_closure_stale", i, "closure of %s returns %s but %s reads %s" % (pname, _fmt(cv), pub, _fmt(cur)), family=entry, prior=type(prior).__name__)


def _fmt(t):
    t = t.detach().reshape(-1)
    return "[" + ", ".join("%.6g" % float(x) for x in t[:4]) + (", ...]" if t.numel() > 4 else "]")


# ----------------------------------------------------------------------------- execution


def make_constraint(op, cur, shape, dtype):
    """Replacement constraint for `register_constraint` (public API)."""
    ck = op["ck"]
    if ck == "same_class":
        ck = {"Interval": "interval", "GreaterThan": "greater", "LessThan": "less", "Positive": "positive"}.get(type(cur).__name__, "greater")
    lo, width = op["lo"], op["width"]
    if op["tensor"] and len(shape) >= 1 and shape[-1] >= 1:
        last = shape[-1]
        lo_t = lo * (1.0 + torch.arange(last, dtype=torch.get_default_dtype()) * 0.5)
        hi_t = lo_t + width
    else:
        lo_t, hi_t = lo, lo + width
    iv = None
    if op["initial"]:
        iv = (torch.as_tensor(lo_t) + op["u"] * width * 0.9 + 0.05 * width) if ck in ("interval", "greater") else None
    if ck == "interval":
        return C.Interval(lo_t, hi_t, initial_value=iv), ck
    if ck == "greater":
        return C.GreaterThan(lo_t, initial_value=iv), ck
    if ck == "less":
        return C.LessThan(hi_t), ck
    return C.Positive(), ck


def execute(history):
    out = core.Outcome()
    cm = warnings.catch_warnings()
    cm.__enter__()
    warnings.simplefilter("ignore")
    try:
        entry = history["entry"]
        dtn = history["dtype"]
        module = build(entry, dtn)
        ref = Ref()
        applied = []
        sketch = []
        accepted = False
        nontrivial = False
        plist = params_of(module)
        if not plist:
            out.stats["skipped:no_constrained_public_parameter"] += 1
            return out
        for i, op in enumerate(list(history.get("setup", [])) + list(history["ops"])):
            out.steps += 1
            k = op["op"]
            out.stats["op:" + k] += 1
            plist = params_of(module)
            tag = k
            if k in ("set", "set_bad", "init_pub", "init_raw", "replace_constraint"):
                name, owner, raw, pub = plist[op["p"] % len(plist)]
                c = constraint_of(owner, raw)
                rawp = getattr(owner, raw)
                dtype = rawp.dtype
                shape = tuple(read(owner, pub).shape)
                cls = {"family": entry, "param": pub, "constraint": ckind(c), "dtype": dtn}
                if c.lower_bound.numel() > 1 or c.upper_bound.numel() > 1:
                    out.stats["probe:tensor_bounds"] += 1
            if k == "set" or k == "init_pub":
                vk = op.get("vk", "interior")
                v, at_bound = value_for(c, shape, dtype, vk, op["u"], op.get("seed", 1))
                arg = v
                drop = min(int(op.get("drop_lead", 0)), max(len(shape) - 1, 0))
                if k == "set" and drop and c.lower_bound.numel() == 1 and c.upper_bound.numel() == 1 and not op.get("as_float"):
                    # a value without the leading (batch) dimensions - e.g. one number per task for a batch of task vectors:
                    # it broadcasts along the trailing dimensions, like any tensor assignment
                    low, at_bound = value_for(c, shape[drop:], dtype, vk, op["u"], op.get("seed", 1))
                    arg = low
                    v = low.expand(shape).clone()
                    out.stats["probe:assignment_broadcast_over_leading_dims"] += 1
                if op.get("as_float") and v.numel() >= 1 and c.lower_bound.numel() == 1 and c.upper_bound.numel() == 1:
                    arg = float(v.reshape(-1)[0])
                    v = torch.full(shape, arg, dtype=dtype)
                before = snapshot(module)
                try:
                    try:
                        if k == "set":
                            setattr(owner, pub, arg)
                        elif op.get("dotted") and "." in name:
                            # the documented recursive form: root.initialize(**{"sub.module.param": value})
                            module.initialize(**{name.rsplit(".", 1)[0] + "." + pub: arg})
                            out.stats["probe:dotted_initialize"] += 1
                        else:
                            owner.initialize(**{pub: arg})
                    except (AttributeError, TypeError):
                        if not isinstance(arg, float):
                            raise
                        # this setter is typed Tensor-only and does not take a Python float (not judged): retry with the tensor
                        out.stats["probe:setter_rejects_python_float"] += 1
                        arg = v
                        if k == "set":
                            setattr(owner, pub, arg)
                        else:
                            owner.initialize(**{pub: arg})
                    ref.value[name] = v.detach().clone()
                    ref.loose.discard(name)
                    if isinstance(arg, float):
                        # most setters convert a Python float with torch.as_tensor (default dtype float32), so the
                        # accepted value is known to float32 precision only
                        ref.loose.add(name)
                    accepted = True
                    tag = "%s[%s,%s]" % (k, vk, ckind(c))
                except ValueError as e:
                    if "prior" in str(e):
                        out.stats["rejected:prior_support_check"] += 1
                        ref.value[name] = None  # the value may already be stored (outside C17's clause)
                        tag = "%s[prior_rejects]" % k
                    else:
                        out.violate("in_bounds_assignment_rejected", i, "%s.%s = %s (%s) raised ValueError(%s)" % (entry, pub, _fmt(v), vk, str(e)[:120]), vk=vk, **cls)
                except (RuntimeError, TypeError) as e:
                    if at_bound:
                        why = same_state(before, snapshot(module))
                        out.stats["rejected:assignment_at_bound"] += 1
                        if why:
                            out.violate("rejected_assignment_changed_state", i, "%s.%s = bound was rejected but %s" % (entry, pub, why), **cls)
                        tag = "%s[at_bound_rejected]" % k
                    else:
                        out.violate(
                            "in_bounds_assignment_rejected",
                            i,
                            "%s.%s = %s (%s, bounds [%s, %s]) raised %s(%s)" % (entry, pub, _fmt(v), vk, _fmt(c.lower_bound), _fmt(c.upper_bound), type(e).__name__, str(e)[:100]),
                            vk=vk,
                            **cls,
                        )
                        ref.value[name] = None
            elif k == "set_bad":
                bk = op["bk"]
                lo, hi = c.lower_bound.to(dtype), c.upper_bound.to(dtype)
                good, _ = value_for(c, shape, dtype, "interior", op["u"], 7)
                bad = None
                if bk == "below" and finite(lo):
                    bad = (lo - (lo.abs() + 1.0) * (0.01 + op["u"])).expand(shape).clone() if lo.numel() > 1 or len(shape) else lo - (abs(float(lo)) + 1.0) * (0.01 + op["u"])
                    bad = torch.as_tensor(bad, dtype=dtype).expand(shape).clone()
                elif bk == "above" and finite(hi):
                    bad = torch.as_tensor(hi + (hi.abs() + 1.0) * (0.01 + op["u"]), dtype=dtype).expand(shape).clone()
                elif bk == "nan":
                    bad = good.clone()
                    bad.reshape(-1)[0] = float("nan")
                elif bk == "inf" and finite(hi):
                    bad = torch.full(shape, float("inf"), dtype=dtype)
                elif bk == "neg_inf" and finite(lo):
                    bad = torch.full(shape, float("-inf"), dtype=dtype)
                elif bk == "shape":
                    bad = good.reshape(-1)[:1].expand(max(good.numel(), 1) + 2, 3).clone()
                if bad is not None and op.get("u", 0) < 0.3 and bk in ("below", "above") and bad.numel() >= 1 and c.lower_bound.numel() == 1 and c.upper_bound.numel() == 1:
                    bad = float(bad.reshape(-1)[0])  # out-of-bounds Python float through the public setter
                    out.stats["probe:bad_assignment_as_python_float"] += 1
                if bad is None:
                    out.stats["skipped:bad_kind_not_applicable"] += 1
                    tag = "skipped"
                else:
                    before = snapshot(module)
                    try:
                        setattr(owner, pub, bad)
                        out.violate("bad_assignment_accepted", i, "%s.%s = %s (%s; bounds [%s, %s]) was accepted; it now reads %s" % (entry, pub, _fmt(torch.as_tensor(bad)), bk, _fmt(lo), _fmt(hi), _fmt(read(owner, pub))), bk=bk, **cls)
                        ref.value[name] = None
                    except (RuntimeError, ValueError, TypeError, AttributeError) as e:
                        out.stats["fault:rejected_assignment_" + bk] += 1
                        why = same_state(before, snapshot(module))
                        out.stats["probe:rejected_assignment_state_unchanged"] += 1
                        nontrivial = True
                        if why and not (isinstance(e, ValueError) and "prior" in str(e)):
                            out.violate("rejected_assignment_changed_state", i, "%s.%s = %s (%s) raised %s but %s" % (entry, pub, _fmt(torch.as_tensor(bad)), bk, type(e).__name__, why), bk=bk, **cls)
                            ref.value[name] = None
                    tag = "set_bad[%s,%s]" % (bk, ckind(c))
            elif k == "init_raw" and op.get("as_float"):
                # initialize(raw_x=<Python float>): finite or not.  (On the pinned tree every enforced constraint answers
                # with TypeError - its transform is applied to the bare float in the bound check - which is not judged;
                # what is judged: a refused call leaves the state alone, a non-finite raw value is never accepted, an
                # accepted finite one reads back as transform(raw).)
                fv = [float("nan"), float("inf"), float("-inf")][int(op["u"] * 3) % 3] if op["u"] < 0.4 else (op["u"] - 0.7) * 8.0
                before = snapshot(module)
                try:
                    owner.initialize(**{raw: fv})
                    if fv != fv or fv in (float("inf"), float("-inf")):
                        out.violate("bad_assignment_accepted", i, "%s.initialize(%s=%r) (a non-finite Python float) was accepted; %s now reads %s" % (entry, raw, fv, pub, _fmt(read(owner, pub))), bk="nonfinite_raw_float", **cls)
                        ref.value[name] = None
                    else:
                        ref.value[name] = c.transform(torch.full(tuple(rawp.shape), fv, dtype=dtype)).detach().clone()
                        ref.loose.discard(name)
                        accepted = True
                    out.stats["probe:float_raw_initialize_accepted"] += 1
                except (TypeError, RuntimeError, ValueError) as e:
                    out.stats["rejected:float_raw_initialize_" + type(e).__name__] += 1
                    why = same_state(before, snapshot(module))
                    if why and not (isinstance(e, ValueError) and "prior" in str(e)):
                        out.violate("rejected_assignment_changed_state", i, "%s.initialize(%s=%r) raised %s but %s" % (entry, raw, fv, type(e).__name__, why), bk="raw_float", **cls)
                tag = "init_raw_float[%s]" % ckind(c)
            elif k == "init_raw":
                g = torch.Generator().manual_seed(op["seed"])
                rawv = (torch.randn(rawp.shape, generator=g, dtype=dtype) * 2.0)
                try:
                    if op.get("dotted") and "." in name:
                        module.initialize(**{name: rawv})
                        out.stats["probe:dotted_initialize"] += 1
                    else:
                        owner.initialize(**{raw: rawv})
                    ref.value[name] = c.transform(rawv).detach().clone()
                    ref.loose.discard(name)
                    accepted = True
                except ValueError as e:
                    if "prior" in str(e):
                        ref.value[name] = None
                    else:
                        raise
                tag = "init_raw[%s]" % ckind(c)
            elif k == "step":
                params = [p for p in module.parameters()]
                opt = (torch.optim.SGD if op["opt"] == "sgd" else torch.optim.Adam)(params, lr=1.0)
                for j, p in enumerate(params):
                    d = op["dirs"][j % len(op["dirs"])]
                    p.grad = torch.full_like(p, float(d) * op["mag"])
                opt.step()
                for p in params:
                    p.grad = None
                for name2, owner2, raw2, pub2 in plist:
                    ref.value[name2] = None
                if op["mag"] >= 1e30 and op["opt"] == "sgd":
                    out.stats["probe:huge_raw_after_step"] += 1
                    out.stats["fault:diverging_optimiser_step"] += 1
                tag = "step[%s,%g]" % (op["opt"], op["mag"])
            elif k == "replace_constraint":
                newc, ck = make_constraint(op, c, shape, dtype)
                newc = newc.to(dtype)
                try:
                    owner.register_constraint(raw, newc)
                    applied.append((op["p"], op))
                    out.stats["probe:constraint_replaced"] += 1
                    iv = newc.initial_value
                    ref.value[name] = None
                    if iv is not None:
                        ref.value[name] = newc.transform(getattr(owner, raw).detach()).detach().clone()
                        # the documented effect: the parameter is re-initialised to the constraint's initial value
                        want = newc.transform(iv.to(dtype)).expand(shape)
                        got = read(owner, pub)
                        scale = max(float(want.abs().max()), 1e-30)
                        if got.shape != want.shape or not float((got - want).abs().max()) <= rtol_for(dtype) * 10 * scale:
                            out.violate("initial_value_not_applied", i, "%s.%s reads %s after registering a constraint with initial value %s" % (entry, pub, _fmt(got), _fmt(want)), **cls)
                except (RuntimeError, ValueError) as e:
                    out.stats["rejected:register_constraint_" + type(e).__name__] += 1
                    ref.value[name] = None
                tag = "replace_constraint[%s%s]" % (ck, ",tensor" if op["tensor"] else "")
            elif k == "sample_prior":
                priors = sorted(module.named_priors(), key=lambda t: t[0])
                if not priors:
                    out.stats["skipped:no_prior"] += 1
                    tag = "skipped"
                else:
                    pname, pmod, prior, closure, setting = priors[op["which"] % len(priors)]
                    local = pname.rsplit(".", 1)[-1]
                    torch.manual_seed(op["seed"])
                    try:
                        expected = prior.sample()
                    except Exception as e:  # noqa  (a prior that cannot be sampled in this dtype: nothing to store)
                        out.stats["rejected:prior_sample_" + type(e).__name__] += 1
                        sketch.append("sample_prior[unavailable]")
                        continue
                    before = snapshot(module)
                    torch.manual_seed(op["seed"])
                    try:
                        pmod.sample_from_prior(local)
                        got = closure(pmod).detach()
                        out.stats["probe:sample_from_prior_checked"] += 1
                        e2 = expected.to(got.dtype).expand(got.shape) if expected.numel() <= got.numel() else expected
                        scale = max(float(e2.abs().max()), 1e-30)
                        # same scale rule as the read-back check: the transform works relative to the (finite) bounds
                        for name2, owner2, raw2, pub2 in plist:
                            if owner2 is pmod:  # (prior names need not follow the <param>_prior pattern, e.g. ConstantMean's mean_prior)
                                c2 = constraint_of(owner2, raw2)
                                scale = max(scale, *(float(b.abs().max()) for b in (c2.lower_bound, c2.upper_bound) if finite(b)))
                        # the setter works in the sample's precision (some priors draw float32 samples in a float64 module)
                        rt = max(rtol_for(got.dtype), rtol_for(expected.dtype)) * 10
                        if e2.shape != got.shape or not float((got - e2).abs().max()) <= rt * scale:
                            out.violate("sample_from_prior_not_stored", i, "after %s.sample_from_prior(%s) the closure reads %s, the prior drew %s" % (entry, local, _fmt(got), _fmt(e2)), family=entry, prior=type(prior).__name__)
                        accepted = True
                        # the sampled parameter's reference value is now the sample
                        for name2, owner2, raw2, pub2 in plist:
                            if owner2 is pmod:
                                ref.value[name2] = read(owner2, pub2)
                    except AttributeError as e:
                        out.violate("sample_from_prior_raises", i, "%s.sample_from_prior(%s) raised AttributeError(%s): the setting closure is broken" % (entry, local, str(e)[:120]), family=entry, prior=type(prior).__name__)
                    except (RuntimeError, ValueError, TypeError) as e:
                        # sample outside the constraint's bounds (e.g. a Normal draw for a positive parameter): legitimately rejected
                        out.stats["rejected:sample_from_prior_" + type(e).__name__] += 1
                        why = same_state(before, snapshot(module))
                        if why and not (isinstance(e, ValueError) and "prior" in str(e)):
                            out.violate("rejected_assignment_changed_state", i, "sample_from_prior(%s) raised %s but %s" % (local, type(e).__name__, why), family=entry, param=local, constraint="-", dtype=dtn)
                    tag = "sample_prior[%s]" % type(prior).__name__
            elif k == "load":
                donor = build(entry, dtn, applied).to(next(module.parameters()).dtype)
                g = torch.Generator().manual_seed(op["seed"])
                with torch.no_grad():
                    for p in donor.parameters():
                        p.add_(torch.randn(p.shape, generator=g, dtype=p.dtype))
                try:
                    module.load_state_dict(donor.state_dict())
                    # bounds travel with the state dict: every parameter now reads what the donor reads
                    dl = {n: (o, r, pb) for n, o, r, pb in params_of(donor)}
                    for name2, owner2, raw2, pub2 in params_of(module):
                        ref.value[name2] = read(dl[name2][0], dl[name2][2]) if name2 in dl else None
                except RuntimeError as e:
                    out.stats["rejected:load_state_dict_" + type(e).__name__] += 1
                    for name2, *_ in plist:
                        ref.value[name2] = None
            elif k == "load_bad":
                donor = build(entry, dtn, applied).to(next(module.parameters()).dtype)
                sd = dict(donor.state_dict())
                keys = sorted(sd)
                pick = keys[op["pick"] % len(keys)]
                if op["kind"] == "missing":
                    del sd[pick]
                elif op["kind"] == "unexpected":
                    sd["no_such_parameter"] = torch.zeros(1)
                else:
                    sd[pick] = torch.zeros(*sd[pick].shape, 3, dtype=sd[pick].dtype)
                try:
                    module.load_state_dict(sd)
                    out.stats["probe:bad_load_accepted"] += 1
                except RuntimeError:
                    out.stats["fault:failed_strict_load_state_dict"] += 1
                for name2, *_ in plist:
                    ref.value[name2] = None
                tag = "load_bad[%s]" % op["kind"]
            elif k == "cast":
                was = next(module.parameters()).dtype
                module = module.to(DTYPES[op["to"]])
                now = next(module.parameters()).dtype
                for name2 in list(ref.value):
                    if ref.value[name2] is not None:
                        ref.value[name2] = ref.value[name2].to(now)
                if was != now:
                    # a value that has been through float32 is known to float32 precision only; near-bound values may
                    # legitimately collapse onto the bound when precision is reduced, so those are re-baselined
                    for name2, owner2, raw2, pub2 in params_of(module):
                        ref.loose.add(name2)
                        if now == torch.float32:
                            ref.value[name2] = None
                tag = "cast[%s]" % op["to"]
            elif k in ("pickle", "deepcopy"):
                before_vals = {n: read(o, pb) for n, o, r, pb in plist}
                try:
                    module = pickle.loads(pickle.dumps(module)) if k == "pickle" else copy.deepcopy(module)
                    for name2, owner2, raw2, pub2 in params_of(module):
                        ref.value[name2] = before_vals.get(name2)
                except Exception as e:  # noqa  (snapshot mechanisms are C18's subject)
                    out.stats["rejected:%s_%s" % (k, type(e).__name__)] += 1
            else:
                raise core.HarnessError("unknown op " + k)
            check_all(out, i, module, ref, entry, dtn, "after step %d: %s" % (i, tag))
            if accepted and i > 0:
                nontrivial = True
            out.transitions.add("%s->%s" % (entry.split("_")[0], tag))
            sketch.append(tag)
        for name, owner, raw, pub in params_of(module):
            out.log.add(name, read(owner, pub))
        out.nontrivial = nontrivial
        out.sketch = "%s:%s:%s" % (entry, dtn, ">".join(sketch))
    finally:
        cm.__exit__(None, None, None)
    return out


# ----------------------------------------------------------------------------- render / simplify / budget


def render(history):
    lines = ["# C17 history; module = %s, dtype = %s; params are indexed modulo the number of constrained public parameters" % (history["entry"], history["dtype"])]
    for i, op in enumerate(list(history.get("setup", [])) + list(history["ops"])):
        o = dict(op)
        k = o.pop("op")
        lines.append("%2d: %s(%s)" % (i, k, ", ".join("%s=%r" % kv for kv in sorted(o.items()))))
    lines.append("# after every step: bounds, read-back of last accepted values (frame condition), prior closures, inverse(transform(raw))")
    return "\n".join(lines)


def simplify(history):
    if history.get("setup"):
        for j in range(len(history["setup"])):
            h = copy.deepcopy(history)
            del h["setup"][j]
            yield h
    if history["dtype"] != "float64":
        h = copy.deepcopy(history)
        h["dtype"] = "float64"
        yield h
    for i, op in enumerate(history["ops"]):
        for key, val in (("as_float", False), ("tensor", False), ("initial", False), ("vk", "interior"), ("mag", 1.0)):
            if key in op and op[key] != val:
                h = copy.deepcopy(history)
                h["ops"][i][key] = val
                yield h


def budget(tier):
    if tier == "quick":
        return {"runs": 6000, "wall": 200, "digest_sample": 32}
    return {"runs": 400000, "wall": 2400, "digest_sample": 128}
