"""C18 - persistence round trips under crash/restart.
A (the crash-free reference execution) is driven by a seeded history.  At arbitrary steps the simulator
crashes the shadow execution B: it takes a durable snapshot of B (or of A at the first crash) with one
of the three mechanisms (state_dict -> torch.save bytes, pickle, deepcopy), discards the live object,
rebuilds B from the snapshot (fresh or dirty target, double restore, failed strict load then correct
load) and from then on applies every operation to A and B in lock-step.  Every observation and the
state_dict after every step must agree: the execution with crashes refines the one without.
A second scenario (rollback) loads an earlier save point into both and compares with the
observations recorded at the save point.  DESIGN.md section 4.5."""
from __future__ import annotations

import copy
import io
import json
import pickle
import warnings

import gpytorch
import torch

from . import bundles, compare, core, driver, zoo
from .zoo import FAULTS

PROPERTY = "C18"
NAME = "c18"
RULE = (
    "a case is one history: model recipe (exact zoo incl. SGPR/KISS-GP/RFF/grid/multitask, or a variational "
    "strategy x distribution x likelihood) + sequence of public operations with crash points (snapshot mechanism, "
    "fresh or dirty restore target, double restore, failed-then-correct load) and rollbacks; non-trivial = at least "
    "one successful restore followed by at least one lock-step observation, or a rollback compared with its save "
    "point; distinct = distinct canonical sequence of (op kind, snapshot mechanism, target kind, phase at the crash) "
    "per model family"
)
STUBBED = ["in-memory file (io.BytesIO) as the durable medium for torch.save / pickle bytes"]
ASSUMPTIONS = [
    "'same architecture' = the same recipe constructor arguments (for exact GPs this includes the training data and the fixed noise vector "
    "current at the crash instant) with a different construction RNG seed and re-randomised parameters",
    "the mode (train/eval) is not part of a state_dict; after a state_dict restore the harness puts the restored model into the reference's mode",
    "tolerance 1e-6 (1e-5 grid-structured kernels, 1e-4 CIQ); no byte-level corruption of torch/pickle formats is injected",
]
EXPECTED_PROBES = {
    "quick": ["restored_state_dict", "restored_pickle", "restored_deepcopy", "dirty_target", "lockstep_observation", "rollback_compared", "crash_in_eval_with_caches", "crash_in_training", "copy_independence_checked"],
    "thorough": ["restored_state_dict", "restored_pickle", "restored_deepcopy", "dirty_target", "lockstep_observation", "rollback_compared", "crash_in_eval_with_caches", "crash_in_training", "copy_independence_checked"],
}
EXACT_FAMS = ["default", "default", "kissgp", "sgpr", "rff", "multitask", "hadamard", "grid"]
OPS_EXACT = {"freeze": 0.5, "sub_mode": 0.5, "predict": 5.0, "train": 0.7, "eval": 0.7, "train_steps": 1.5, "set_train_data": 1.0, "perturb": 0.8, "backward": 0.5, "prior_predict": 0.5, "objective": 0.8, "train_call": 0.4, "fantasize": 0.3}
OPS_VAR = {"freeze": 0.5, "sub_mode": 0.5, "predict": 5.0, "train": 0.7, "eval": 0.7, "train_steps": 1.8, "perturb": 0.8, "prior_predict": 0.5, "objective": 0.8, "kl": 0.6, "train_call": 0.8, "set_train_data": 0.4, "fantasize": 0.3}


def generate(rng, tier, index):
    thorough = tier == "thorough"
    fam_pool = EXACT_FAMS + ["variational"] * 6
    recipe = driver.gen_recipe(rng, fam_pool)
    if recipe["family"] == "kissgp":
        # dynamic grids re-grid on every call (known finding F11 of C03) which would resurface here as reference-vs-restored
        # cache differences; the dynamic-grid buffers themselves are covered at module level by m_c18m
        recipe["grid_bounds"] = [[-0.3, 1.3]] * recipe["d"]
    var = recipe["family"] == "variational"
    kinds = dict(OPS_VAR if var else OPS_EXACT)
    for k in list(kinds):
        if k != "predict" and rng.random() < 0.3:
            del kinds[k]
    kinds["crash"] = rng.choice([1.5, 3.0])
    kinds["partial_load"] = 0.8
    kinds["save_point"] = 0.6
    kinds["rollback"] = 0.6
    items = sorted(kinds.items())
    allow = None if rng.random() < 0.3 else set(rng.sample(driver.VAR_KNOBS if var else ["fast_pred_var", "max_eager_kernel_size", "lazily_evaluate_kernels", "detach_test_caches", "sgpr_diagonal_correction", "memory_efficient", "use_toeplitz"], rng.randint(0, 3)))
    p_each = rng.choice([0.2, 0.5])
    max_len = rng.randint(4, 12) if not thorough else rng.randint(6, 36)
    ops = []
    # stratified: crash mechanism x phase
    hows = ["state_dict", "pickle", "deepcopy"]
    phases = ["training", "eval_cold", "eval_cached", "eval_grad_cached", "after_steps"]
    if index < len(hows) * len(phases) * 4:
        how = hows[index % 3]
        phase = phases[(index // 3) % len(phases)]
        if phase == "training":
            ops += [{"op": "train"}]
        elif phase == "eval_cold":
            ops += [{"op": "eval"}]
        elif phase == "eval_cached":
            op = driver.gen_op(rng, recipe, "predict", allow, p_each)
            op["grad"] = False
            ops += [op]
        elif phase == "eval_grad_cached":
            op = driver.gen_op(rng, recipe, "predict", allow, p_each)
            op["grad"] = True
            ops += [op]
        else:
            ops += [driver.gen_op(rng, recipe, "train_steps", allow, p_each)]
        ops.append(gen_crash(rng, how))
        ops.append(driver.gen_op(rng, recipe, "predict", allow, p_each))
    if index % 8 == 3:
        # stratified: parameters held fixed (requires_grad False), copy, then training continues on both
        fz = driver.gen_op(rng, recipe, "freeze", allow, p_each)
        fz["flag"] = False
        ops.append(fz)
        ops.append(gen_crash(rng, ["pickle", "deepcopy", "state_dict"][(index // 8) % 3]))
        ops.append(driver.gen_op(rng, recipe, "train_steps", allow, p_each))
        ops.append(driver.gen_op(rng, recipe, "predict", allow, p_each))
    if index % 8 == 5:
        # stratified rollback pattern: the state at the save point differs from the later state only in part
        ops.append(driver.gen_op(rng, recipe, "predict", allow, p_each))  # the model has been used (initialised) before
        ops.append({"op": "save_point", "seed": rng.randrange(1 << 30)})
        ops.append({"op": "train"})
        pop = driver.gen_op(rng, recipe, "perturb", allow, p_each)
        pop["scope"] = rng.choice(["hypers", "hypers", "all"])
        ops.append(pop)
        pr = driver.gen_op(rng, recipe, "predict", allow, p_each)
        ops.append(pr)
        ops.append({"op": "rollback", "which": 0, "seed": rng.randrange(1 << 30)})
    while len(ops) < max_len:
        k = core.weighted_choice(rng, items)
        if k == "crash":
            ops.append(gen_crash(rng))
        elif k == "save_point":
            ops.append({"op": "save_point", "seed": rng.randrange(1 << 30)})
        elif k == "rollback":
            ops.append({"op": "rollback", "which": rng.randrange(4), "seed": rng.randrange(1 << 30)})
        elif k == "partial_load":
            ops.append(gen_partial_load(rng))
        else:
            ops.append(driver.gen_op(rng, recipe, k, allow, p_each))
    ops.append(driver.gen_op(rng, recipe, "predict", allow, p_each))
    if rng.random() < 0.5:
        ops.append(driver.gen_op(rng, recipe, "objective", allow, p_each))
    core.sticky_bundles(rng, ops)
    return {"recipe": recipe, "ops": ops}


def gen_partial_load(rng):
    # load_state_dict(part, strict=False): a checkpoint holding only some of the keys (transfer of hyper-parameters, of
    # the inducing points, of everything but bookkeeping flags, of one tensor)
    return {"op": "partial_load", "part": rng.choice(["hypers", "kernel", "likelihood", "strategy_no_q", "one"]), "pick": rng.randrange(1 << 16), "seed": rng.randrange(1 << 30), "probe_seed": rng.randrange(1 << 30)}


def gen_crash(rng, how=None):
    return {
        "op": "crash",
        "how": how or rng.choice(["state_dict", "state_dict", "pickle", "deepcopy"]),
        "target": rng.choice(["fresh", "fresh", "dirty"]),
        "double": rng.random() < 0.2,
        "failed_first": rng.random() < 0.25,
        "proto": rng.choice([2, 3, 4, 5]),
        "init_seed": rng.randrange(1 << 30),
        # state_dict restores: the dict is handed over in memory (B.load_state_dict(A.state_dict())) instead of through
        # torch.save / torch.load; the target was switched to load_strict_shapes(False) first
        "inmem": rng.random() < 0.3,
        "loose_shapes": rng.random() < 0.3,
    }


# ----------------------------------------------------------------------------- helpers


def tolerance(recipe):
    if recipe["family"] == "variational":
        return 1e-4 if recipe["strategy"] == "ciq" else compare.TOL_EXACT
    if recipe["family"] in ("kissgp", "grid"):
        return 1e-5
    return compare.TOL_EXACT


def sd_clone(model):
    return {k: v.detach().clone() for k, v in model.state_dict().items()}


def compare_state(a, b, tol):
    """state_dict of original vs restored.  Returns (what, detail) or None."""
    sa, sb = a.state_dict(), b.state_dict()
    if sorted(sa) != sorted(sb):
        return "keys", "state_dict keys differ: %s" % sorted(set(sa) ^ set(sb))[:4]
    for k in sorted(sa):
        x, y = sa[k], sb[k]
        if x.shape != y.shape or x.dtype != y.dtype:
            return k, "state_dict[%s]: shape/dtype %s %s vs %s %s" % (k, tuple(x.shape), x.dtype, tuple(y.shape), y.dtype)
        if x.dtype == torch.bool or not x.is_floating_point():
            if not torch.equal(x, y):
                return k, "state_dict[%s] differs (%s vs %s)" % (k, x.reshape(-1)[:4].tolist(), y.reshape(-1)[:4].tolist())
            continue
        ok, diff, scale = compare.tensor_diff(x.detach(), y.detach())
        if not ok or not diff <= tol * scale:
            return k, "state_dict[%s] differs by %.3g (scale %.3g)" % (k, diff, scale)
    return None


def kinds(model):
    """What kind of thing every entry of the model's state is: (name, parameter/buffer, dtype, requires_grad), plus the
    partition of parameter names into groups referring to one and the same tensor (tied parameters)."""
    rows = []
    groups = {}
    for n, p in model.named_parameters(remove_duplicate=False):
        rows.append((n, "parameter" if isinstance(p, torch.nn.Parameter) else type(p).__name__, str(p.dtype), bool(p.requires_grad)))
        groups.setdefault(id(p), []).append(n)
    for n, b in model.named_buffers(remove_duplicate=False):
        rows.append((n, "buffer", str(b.dtype), bool(b.requires_grad)))
    ties = sorted(tuple(sorted(g)) for g in groups.values() if len(g) > 1)
    return sorted(rows), ties


def compare_kinds(a, b):
    """Returns (class key, detail) or None."""
    (ra, ta), (rb, tb) = kinds(a), kinds(b)
    if ra != rb:
        da, db = dict((r[0], r[1:]) for r in ra), dict((r[0], r[1:]) for r in rb)
        for n in sorted(set(da) | set(db)):
            if da.get(n) != db.get(n):
                x, y = da.get(n), db.get(n)
                what = "presence" if x is None or y is None else "kind" if x[0] != y[0] else "dtype" if x[1] != y[1] else "requires_grad"
                return what, "%s: original %s, copy %s" % (n, x, y)
    if ta != tb:
        return "ties", "tied parameter groups differ: original %s, copy %s" % (ta[:3], tb[:3])
    return None


def extra_state(model):
    """Prediction-relevant attributes that are not parameters/buffers but should travel with pickle/deepcopy and be
    constructor arguments for state_dict: training data, fixed noise (exact GPs)."""
    out = {}
    ti = getattr(model, "train_inputs", None)
    if ti is not None:
        for j, t in enumerate(ti):
            out["train_inputs_%d" % j] = t.detach()
    tt = getattr(model, "train_targets", None)
    if tt is not None:
        out["train_targets"] = tt.detach()
    lik = getattr(model, "likelihood", None)
    nc = getattr(lik, "noise_covar", None)
    if nc is not None and isinstance(getattr(nc, "noise", None), torch.Tensor) and not isinstance(nc.noise, torch.nn.Parameter) and type(nc).__name__ == "FixedGaussianNoise":
        out["fixed_noise"] = nc.noise.detach()
    return out


def phase_of(live, grad_cached):
    M = live.model
    if M.training:
        return "training"
    if live.is_var:
        cached = driver_has_cache(M)
    else:
        cached = M.prediction_strategy is not None
    if not cached:
        return "eval_cold"
    return "eval_grad_cached" if grad_cached else "eval_cached"


def driver_has_cache(M):
    from .m_c03v import has_eval_cache

    return has_eval_cache(M)


# ----------------------------------------------------------------------------- execution


def restore(out, i, src_live, op, recipe, tol, phase):
    """Crash: snapshot `src_live` with the chosen mechanism and build the restored Live from it.
    Returns the restored Live or None (with a violation recorded) when the mechanism itself failed."""
    how = op["how"]
    src = src_live.model
    fam = family_label(recipe)
    cls = {"family": fam, "how": how, "phase": phase, "target": op["target"] if how == "state_dict" else "n/a"}
    try:
        if how == "pickle":
            data = pickle.dumps(src, protocol=op["proto"])
            new = pickle.loads(data)
            out.stats["fault:crash_restore_pickle"] += 1
        elif how == "deepcopy":
            new = copy.deepcopy(src)
            out.stats["fault:crash_restore_deepcopy"] += 1
        else:
            buf = io.BytesIO()
            torch.save(src.state_dict(), buf)
            data = buf.getvalue()
            out.stats["fault:crash_restore_state_dict"] += 1
    except Exception as e:  # noqa  the mechanism yielded no model at this save point
        msg = str(e)
        kind = "non_leaf_deepcopy" if ("graph leaves" in msg or "view was created in no_grad mode" in msg) else ("local_object" if "local object" in msg or "Can't pickle" in msg or "Can't get local" in msg else type(e).__name__)
        out.violate("snapshot_failed", i, "%s of the model raised %s(%s) at a save point in phase %s" % (how, type(e).__name__, msg[:160], phase), exc_kind=kind, model_kind=("variational" if recipe["family"] == "variational" else recipe["family"]), defined_in=core.local_object_site(msg) if kind == "local_object" else "n/a", **cls)
        return None
    if how in ("pickle", "deepcopy"):
        restored = driver.Live(recipe, model=new)
        if src_live.is_var:
            restored.x, restored.y = src_live.x, src_live.y
        out.stats["probe:restored_" + how] += 1
        # the copy must carry the modes and the non-parameter state as well
        if driver.module_modes(src) != driver.module_modes(new):
            diff = [n for (n, a), (_, b) in zip(driver.module_modes(src), driver.module_modes(new)) if a != b]
            out.violate("mode_not_carried", i, "%s changed the training flag of submodules %s" % (how, diff[:4]), **cls)
        dk = compare_kinds(src, new)
        if dk:
            out.violate("kind_not_carried", i, "%s: %s" % (how, dk[1]), what=dk[0], key=dk[1].split(":")[0].rsplit(".", 1)[-1], **cls)
        independence_check(out, i, src_live, how, op, recipe, tol, cls)
        ea, eb = extra_state(src), extra_state(new)
        for k in sorted(set(ea) | set(eb)):
            if k not in ea or k not in eb or ea[k].shape != eb[k].shape or not torch.equal(torch.nan_to_num(ea[k]), torch.nan_to_num(eb[k])):
                out.violate("state_not_carried", i, "%s lost or changed %s" % (how, k), what=k, **cls)
        return restored
    # ---- state_dict into a freshly constructed (or dirty) object of the same architecture
    r2 = dict(recipe)
    r2["init_seed"] = op["init_seed"]
    if src_live.is_var:
        torch.manual_seed(op["init_seed"])
        new = zoo.build_variational(r2, variant=1)
    else:
        st = zoo.exact_state(src)
        torch.manual_seed(op["init_seed"])
        # variant 1: other prior parameters and constraint bounds (numbers that must travel in the state_dict)
        new = zoo.build_exact(r2, data={"inputs": st["inputs"], "targets": st["targets"], "fixed_noise": st["fixed_noise"]}, variant=1)
    zoo.randomise_parameters(new, op["init_seed"] + 1)
    restored = driver.Live(recipe, model=new)
    if src_live.is_var:
        restored.x, restored.y = src_live.x, src_live.y
    if op["target"] == "dirty":
        out.stats["probe:dirty_target"] += 1
        # the target has a life of its own before the load: predictions (caches), a training step, more predictions
        scratch = core.Outcome()
        for dop in (
            {"op": "predict", "seed": op["init_seed"] + 2, "t": 2, "bundle": [], "grad": True},
            {"op": "train_steps", "k": 1, "opt": "adam", "lr": 0.1},
            {"op": "predict", "seed": op["init_seed"] + 3, "t": 2, "bundle": [["fast_pred_var", {"state": True}]] if not src_live.is_var else [], "grad": False},
        ):
            try:
                driver.apply(restored, dop, scratch)
            except Exception:  # noqa
                pass
    sd = torch.load(io.BytesIO(data))
    if op.get("inmem"):
        sd = src.state_dict()
        out.stats["probe:state_dict_handed_over_in_memory"] += 1
    if op.get("loose_shapes"):
        new.load_strict_shapes(False)
        out.stats["probe:load_strict_shapes_false"] += 1
    try:
        if op["failed_first"]:
            bad = dict(sd)
            bad.pop(sorted(k for k in bad if not k.endswith("_bound"))[0])
            try:
                new.load_state_dict(bad)
            except RuntimeError:
                out.stats["fault:failed_strict_load_before_restore"] += 1
        new.load_state_dict(sd)
        if op["double"]:
            new.load_state_dict(torch.load(io.BytesIO(data)))
    except Exception as e:  # noqa
        msg = str(e)
        if op["target"] == "dirty" and isinstance(e, RuntimeError) and ("Missing key(s)" in msg or "Unexpected key(s)" in msg):
            # the target has a life of its own: it may hold (or lack) a lazily created buffer that the snapshot lacks (or
            # holds), e.g. RFF weights of a kernel built without num_dims.  torch rejects the load explicitly; there is
            # no restored model to judge.  (Into a FRESH target this is a violation, see below.)
            out.stats["probe:dirty_target_strict_key_mismatch"] += 1
            return None
        out.violate("restore_failed", i, "load_state_dict into a freshly constructed model of the same architecture raised %s(%s)" % (type(e).__name__, msg[:200]), **cls)
        return None
    # modes are not durable state: the user puts the restored model (and any submodule that was switched on its own)
    # into the modes of the original; parents first, so that children end up with their own flags
    # ... and neither is requires_grad (a state_dict holds values only): the user freezes the same parameters again
    src_rg = dict((n, p.requires_grad) for n, p in src.named_parameters())
    for n, p in new.named_parameters():
        if n in src_rg and p.requires_grad != src_rg[n]:
            p.requires_grad_(src_rg[n])
    driver.set_mode(restored, src.training)
    src_modes = dict((n, m.training) for n, m in src.named_modules())
    for n, m in new.named_modules():
        if n in src_modes and m.training != src_modes[n]:
            m.train(src_modes[n])
    out.stats["probe:restored_state_dict"] += 1
    ct = getattr(new, "_ctor_tensors", None)
    if ct is not None and (ct[0].shape != ct[1].shape or not torch.equal(ct[0], ct[1])):
        out.violate("copy_not_independent", i, "load_state_dict wrote into a tensor of the caller: the inducing points passed to the constructor changed by %.3g" % float((ct[0] - ct[1]).abs().max()), quantity="caller_tensor", **cls)
    if op.get("loose_shapes"):
        new.load_strict_shapes(True)
    # the restored model is a model of its own: no parameter / buffer shares storage with the model the dict came from
    a, b = src.state_dict(keep_vars=True), new.state_dict(keep_vars=True)
    shared = [n for n in sorted(a) if n in b and a[n].numel() > 0 and a[n].data_ptr() == b[n].data_ptr()]
    if shared:
        out.violate("copy_not_independent", i, "state_dict restore (%s%s): the restored model shares storage with the original: %s" % ("in memory" if op.get("inmem") else "via torch.save", ", load_strict_shapes(False)" if op.get("loose_shapes") else "", shared[:3]), quantity="storage", loose_shapes=bool(op.get("loose_shapes")), **cls)
    return restored


def shared_objects(a, b, limit=20000):
    """Mutable objects (modules, parameters, dicts, lists, sets, gpytorch helper objects such as prediction strategies or
    added loss terms) reachable from model `b` that are the very objects reachable from model `a`.  Tensors that are not
    parameters are not followed (cached tensors are never written in place; parameters / buffers are covered by the
    storage check)."""
    import collections

    def walk(root):
        seen = {}
        stack = [("model", root)]
        n = 0
        while stack and n < limit:
            path, obj = stack.pop()
            n += 1
            oid = id(obj)
            if oid in seen or obj is None or isinstance(obj, (str, bytes, int, float, bool, complex, type, torch.dtype, torch.device, torch.Size)):
                continue
            if isinstance(obj, torch.nn.Parameter):
                seen[oid] = path
            elif isinstance(obj, torch.Tensor) or callable(obj) and not isinstance(obj, torch.nn.Module):
                continue
            elif isinstance(obj, torch.nn.Module):
                seen[oid] = path
                for kk, v in vars(obj).items():
                    stack.append((path + "." + kk, v))
            elif isinstance(obj, (dict, collections.OrderedDict)):
                seen[oid] = path
                for kk, v in obj.items():
                    stack.append((path + "[%r]" % (kk,), v))
            elif isinstance(obj, (list, set)):
                seen[oid] = path
                for j, v in enumerate(obj):
                    stack.append((path + "[%d]" % j, v))
            elif isinstance(obj, tuple):
                for j, v in enumerate(obj):
                    stack.append((path + "[%d]" % j, v))
            elif type(obj).__module__.startswith("gpytorch") and hasattr(obj, "__dict__"):
                seen[oid] = path
                for kk, v in vars(obj).items():
                    stack.append((path + "." + kk, v))
        return seen

    sa, sb = walk(a), walk(b)
    return sorted((sb[o], sa[o]) for o in sb if o in sa)


def independence_check(out, i, src_live, how, op, recipe, tol, cls):
    """A copy is self-contained: O = copy(src), C = copy(O); C's eval-mode prediction must not change when O is modified
    afterwards (parameters moved in training mode).  Uses throw-away objects, so A and B are not disturbed."""
    try:
        if how == "pickle":
            O = pickle.loads(pickle.dumps(src_live.model, protocol=op["proto"]))
            Cm = pickle.loads(pickle.dumps(O, protocol=op["proto"]))
        else:
            O = copy.deepcopy(src_live.model)
            Cm = copy.deepcopy(O)
    except Exception:  # noqa  (the mechanism's own failures are judged by the caller)
        return
    lo = driver.Live(recipe, model=O)
    lc = driver.Live(recipe, model=Cm)
    if src_live.is_var:
        lo.x, lo.y = src_live.x, src_live.y
        lc.x, lc.y = src_live.x, src_live.y
    scratch = core.Outcome()
    # the original of the copy must have test-time caches for the copy to (wrongly) keep referring to: predict with both
    probe = {"op": "predict", "seed": op["init_seed"] + 5, "t": 3, "bundle": [], "grad": False}
    try:
        driver.apply(lo, probe, scratch)
        Cm2 = pickle.loads(pickle.dumps(O, protocol=op["proto"])) if how == "pickle" else copy.deepcopy(O)
        lc = driver.Live(recipe, model=Cm2)
        if src_live.is_var:
            lc.x, lc.y = src_live.x, src_live.y
        s0, o0 = driver.apply(lc, probe, scratch)
        # modify the copy's original (documented way: in training mode), without touching the copy
        driver.set_mode(lo, True)
        zoo.randomise_parameters(O, op["init_seed"] + 6, scale=0.7)
        driver.set_mode(lo, False)
        s1, o1 = driver.apply(lc, probe, scratch)
    except Exception as e:  # noqa
        out.stats["probe:independence_check_unavailable_" + type(e).__name__] += 1
        return
    out.stats["probe:copy_independence_checked"] += 1
    out.stats["oracle_comparisons"] += 1
    if s0 == "ok" and s1 == "ok":
        bad, mx = compare.compare_obs(o0, o1, tol)
        if bad:
            out.violate(
                "copy_not_independent",
                i,
                "%s copy: its prediction changed by %.3g (%s) after only the object it was copied from was modified" % (how, bad[0][1], bad[0][0]),
                quantity=bad[0][0],
                **cls,
            )
    # and the other direction: parameters / buffers are not shared objects
    shared = [n for (n, p), (_, q) in zip(sorted(O.state_dict(keep_vars=True).items()), sorted(Cm2.state_dict(keep_vars=True).items())) if p is q or (p.numel() > 0 and p.data_ptr() == q.data_ptr())]
    if shared:
        out.violate("copy_not_independent", i, "%s copy shares storage with its original: %s" % (how, shared[:3]), quantity="storage", **cls)
    # ... gradients do not flow from the copy into its original: O predicts with autograd enabled (its caches then carry a
    # graph), is copied, and a backward pass through the copy's prediction must leave every .grad of O untouched
    try:
        O3 = pickle.loads(pickle.dumps(src_live.model, protocol=op["proto"])) if how == "pickle" else copy.deepcopy(src_live.model)
        l3 = driver.Live(recipe, model=O3)
        if src_live.is_var:
            l3.x, l3.y = src_live.x, src_live.y
        gprobe = dict(probe, grad=True)
        s3, _ = driver.apply(l3, gprobe, scratch)
        C3 = pickle.loads(pickle.dumps(O3, protocol=op["proto"])) if how == "pickle" else copy.deepcopy(O3)
        for prm in O3.parameters():
            prm.grad = None
        lc3 = driver.Live(recipe, model=C3)
        if src_live.is_var:
            lc3.x, lc3.y = src_live.x, src_live.y
        driver.set_mode(lc3, False)
        torch.manual_seed(op["init_seed"] + 8)
        d3 = C3(*driver.test_args(recipe, gprobe))
        (d3.mean.sum() + d3.variance.sum()).backward()
        leaked = [n for n, prm in O3.named_parameters() if prm.grad is not None]
        out.stats["probe:gradient_isolation_checked"] += 1
        if leaked:
            out.violate("copy_not_independent", i, "%s copy: a backward pass through the copy's prediction put gradients on its original's parameters %s" % (how, leaked[:3]), quantity="gradient", **cls)
    except Exception as e:  # noqa  (copies of models holding non-leaf caches may fail: judged elsewhere, F10)
        out.stats["probe:gradient_isolation_unavailable_" + type(e).__name__] += 1
    # ... and no mutable object of the object graph (a dict of added loss terms, a sub-module, a strategy) is shared
    try:
        so = shared_objects(O, Cm2)
    except Exception as e:  # noqa
        out.stats["probe:object_graph_walk_unavailable_" + type(e).__name__] += 1
        so = []
    out.stats["probe:object_graph_compared"] += 1
    if so:
        out.violate("copy_not_independent", i, "%s copy shares mutable objects with its original: %s" % (how, ["%s is %s" % pq for pq in so[:3]]), quantity="object", what=so[0][0].rsplit(".", 1)[-1].split("[")[0], **cls)


def family_label(recipe):
    if recipe["family"] == "variational":
        return "variational:%s/%s" % (recipe["strategy"], recipe["dist"])
    return recipe["family"]


def execute(history):
    out = core.Outcome()
    from . import m_c20

    m_c20._capture_pristine()
    m_c20.reset_globals()
    FAULTS.disarm()
    cm = warnings.catch_warnings()
    cm.__enter__()
    warnings.simplefilter("ignore")
    try:
        recipe = history["recipe"]
        tol = tolerance(recipe)
        fam = family_label(recipe)
        A = driver.Live(recipe)
        B = None
        saves = []
        sketch = []
        grad_cached = False
        restored_once = lock_obs = rollback_cmp = False
        last_how = None
        for i, op in enumerate(history["ops"]):
            out.steps += 1
            k = op["op"]
            out.stats["op:" + k] += 1
            tag = k
            if k == "crash":
                src = B if B is not None else A
                phase = phase_of(src, grad_cached)
                out.stats["probe:crash_in_" + ("training" if phase == "training" else "eval_with_caches" if "cached" in phase else "eval_cold")] += 1
                newB = restore(out, i, src, op, recipe, tol, phase)
                tag = "crash[%s,%s,%s]" % (op["how"], op["target"] if op["how"] == "state_dict" else "-", phase)
                if newB is not None:
                    B = newB
                    last_how = op["how"]
                    restored_once = True
                    d = compare_state(A.model, B.model, tol)
                    out.stats["oracle_comparisons"] += 1
                    if d:
                        out.violate("state_differs_after_restore", i, "right after the %s restore: %s" % (op["how"], d[1]), family=fam, how=op["how"], key=d[0].rsplit(".", 1)[-1], phase=phase)
            elif k == "save_point":
                src = A
                if src.is_var and not all(bool(v.item()) for kk, v in src.model.state_dict().items() if kk.endswith("variational_params_initialized")):
                    # a variational model that was never called initialises q(u) - with random noise - at its first call: a
                    # checkpoint of it has no prediction of its own to be compared with.  Use the model once before saving.
                    warm = {"op": "predict", "seed": op["seed"] + 1, "t": 1, "bundle": [], "grad": False}
                    for live in [A] + ([B] if B is not None else []):
                        driver.apply(live, warm, out)
                    out.stats["probe:model_used_before_save_point"] += 1
                buf = io.BytesIO()
                torch.save(src.model.state_dict(), buf)
                probe = {"op": "predict", "seed": op["seed"], "t": 2, "bundle": [], "grad": False}
                rec = {"bytes": buf.getvalue(), "extra": {kk: v.clone() for kk, v in extra_state(src.model).items()}, "probe": probe, "mode": src.model.training}
                if src.is_var:
                    rec["xy"] = (src.x, src.y)
                saves.append(rec)
                # observations at the save point, taken on a throw-away restored copy so that observing does not perturb A
                obsA = observe_saved(recipe, rec, src)
                rec["obs"] = obsA
            elif k == "rollback":
                if not saves:
                    out.stats["skipped:rollback_no_save_point"] += 1
                    tag = "skipped"
                else:
                    rec = saves[op["which"] % len(saves)]
                    for live in [A] + ([B] if B is not None else []):
                        ok = rollback_into(out, i, live, rec, recipe, fam)
                        if not ok:
                            continue
                        status, obs = driver.apply(live, rec["probe"], out)
                        out.stats["oracle_comparisons"] += 1
                        out.stats["probe:rollback_compared"] += 1
                        rollback_cmp = True
                        if status == "ok" and rec["obs"] is not None:
                            bad, mx = compare.compare_obs(obs, rec["obs"], tol)
                            if bad:
                                out.violate(
                                    "rollback_differs",
                                    i,
                                    "after loading save point %d into the live model (%s), %s differs from the observation recorded at the save point by %.3g"
                                    % (op["which"] % len(saves), "reference" if live is A else "restored", bad[0][0], bad[0][1]),
                                    family=fam,
                                    quantity=bad[0][0],
                                    who="A" if live is A else "B",
                                )
                            else:
                                out.note_diff("rollback tol=%g" % tol, mx)
                    grad_cached = False
            elif k == "partial_load":
                for live in [A] + ([B] if B is not None else []):
                    partial_load(out, i, live, op, recipe, tol, fam, "A" if live is A else "B")
                grad_cached = False
                tag = "partial_load[%s]" % op["part"]
            else:
                if k == "predict":
                    grad_cached = grad_cached or bool(op.get("grad"))
                if k in ("train", "eval", "train_steps", "set_train_data", "perturb", "train_call", "objective", "kl"):
                    grad_cached = False
                statusA, obsA = driver.apply(A, op, out)
                for q in sorted(obsA):
                    if torch.is_tensor(obsA[q]):
                        out.log.add("A%d:%s" % (i, q), obsA[q])
                if statusA == "skipped":
                    tag = "skipped"
                if B is not None:
                    statusB, obsB = driver.apply(B, op, out)
                    out.stats["oracle_comparisons"] += 1
                    out.stats["probe:lockstep_observation"] += 1
                    lock_obs = True
                    cls = {"family": fam, "how": last_how, "op": k}
                    if statusA != statusB and k in ("backward", "fantasize"):
                        # whether these two succeed depends on state that cannot persist by nature or is cache state by design:
                        # a second backward through non-detached caches fails on whichever side still holds the graph;
                        # get_fantasy_model deep-copies the model (fails on non-leaf cached tensors, F2/F10) and uses whatever
                        # strategy class is cached (created under the settings of an earlier call).  Not persistence: counted.
                        out.stats["probe:status_differs_not_judged_" + k] += 1
                    elif statusA == "ok" and statusB == "rejected" and k == "predict" and pure_rejection(recipe, B, op, obsB.get("exc")):
                        # a freshly constructed model holding B's state rejects this (input, settings) pair as well: the
                        # reference only answered from caches (e.g. more LOVE probe vectors than grid points); not persistence
                        out.stats["probe:pure_function_rejection_reference_answered_from_cache"] += 1
                    elif statusA != statusB or obsA.get("exc") != obsB.get("exc"):
                        out.violate(
                            "lockstep_status_differs",
                            i,
                            "%s: reference %s%s, restored (%s) %s%s" % (k, statusA, "(" + str(obsA.get("exc")) + ")" if "exc" in obsA else "", last_how, statusB, "(" + str(obsB.get("exc")) + ")" if "exc" in obsB else ""),
                            **cls,
                        )
                    else:
                        ta = {q: v for q, v in obsA.items() if torch.is_tensor(v)}
                        tb = {q: v for q, v in obsB.items() if torch.is_tensor(v)}
                        bad, mx = compare.compare_obs(ta, tb, tol)
                        if bad:
                            q, diff, scale = bad[0]
                            out.violate(
                                "lockstep_observation_differs",
                                i,
                                "%s: %s of the restored model (%s) differs from the reference by %.3g (scale %.3g, tol %.1g)" % (k, q, last_how, diff, scale, tol),
                                quantity=q.split("_")[0],
                                **cls,
                            )
                        else:
                            out.note_diff("lockstep tol=%g" % tol, mx)
                    d = compare_state(A.model, B.model, tol * 10)
                    if d:
                        out.violate("lockstep_state_differs", i, "after %s: %s (restored via %s)" % (k, d[1], last_how), key=d[0].rsplit(".", 1)[-1], **cls)
                    if driver.module_modes(A.model) != driver.module_modes(B.model):
                        diff = [n for (n, a), (_, b) in zip(driver.module_modes(A.model), driver.module_modes(B.model)) if a != b]
                        out.violate("lockstep_mode_differs", i, "after %s: training flags differ for submodules %s (restored via %s)" % (k, diff[:4], last_how), **cls)
            out.transitions.add("%s|%s|B%d->%s" % (fam.split("/")[0], "T" if A.model.training else "E", int(B is not None), tag))
            sketch.append(tag)
        out.nontrivial = (restored_once and lock_obs) or rollback_cmp
        out.sketch = fam + ":" + ">".join(sketch)
    finally:
        cm.__exit__(None, None, None)
        FAULTS.disarm()
        m_c20.reset_globals()
    return out


def partial_load(out, i, live, op, recipe, tol, fam, who):
    """load_state_dict(part, strict=False) from a donor of the same recipe.  Afterwards (a) every key the dict holds has the
    donor's value and every other key is untouched, (b) no cache of the previous state is in effect: the next prediction
    equals that of a freshly constructed model holding the same state."""
    M = live.model
    torch.manual_seed(op["seed"])  # construction-time random initialisation of the donor is part of the recorded op
    donor = driver.Live(recipe).model if live.is_var else zoo.build_exact(recipe, data=driver._cur_data(M, recipe))
    zoo.randomise_parameters(donor, op["seed"])
    try:
        if live.is_var:
            donor.train()
            with torch.no_grad():
                donor(live.x)
        else:
            donor.eval()
            with torch.no_grad():
                donor(*driver.test_args(recipe, {"seed": op["seed"] + 1, "t": 2}))
    except Exception:  # noqa
        pass
    sd = donor.state_dict()
    keys = sorted(sd)
    part = op["part"]
    if part == "hypers":
        chosen = [q for q in keys if not q.startswith("variational_strategy.")]
    elif part == "kernel":
        chosen = [q for q in keys if q.startswith("covar_module.")]
    elif part == "likelihood":
        chosen = [q for q in keys if q.startswith("likelihood.")]
    elif part == "strategy_no_q":
        chosen = [q for q in keys if q.startswith("variational_strategy.") and "_variational_distribution" not in q and not q.endswith(("updated_strategy", "variational_params_initialized"))]
    elif part == "no_flags":
        chosen = [q for q in keys if not q.endswith(("updated_strategy", "variational_params_initialized"))]
    else:
        chosen = [keys[op["pick"] % len(keys)]]
    before = {q: v.detach().clone() for q, v in M.state_dict().items()}
    chosen = [q for q in chosen if q in before and before[q].shape == sd[q].shape]
    # one tensor may be reachable under several names (SGPR: likelihood.* and covar_module.likelihood.*): loading one
    # name legitimately changes its aliases
    ptr = {}
    for q, v in M.state_dict(keep_vars=True).items():
        if v.numel() > 0:
            ptr.setdefault(v.data_ptr(), []).append(q)
    aliases = set()
    for names in ptr.values():
        if any(q in chosen for q in names):
            aliases.update(q for q in names if q not in chosen)
    if not chosen:
        out.stats["skipped:partial_load_empty"] += 1
        return
    cls = {"family": fam, "how": "partial_state_dict", "part": part}
    try:
        M.load_state_dict({q: sd[q].detach().clone() for q in chosen}, strict=False)
    except Exception as e:  # noqa
        out.stats["rejected:partial_load_%s_%s" % (part, type(e).__name__)] += 1
        after = M.state_dict()
        changed = [q for q in sorted(before) if q in after and (after[q].shape != before[q].shape or not torch.equal(torch.nan_to_num(after[q]), torch.nan_to_num(before[q])))]
        if changed:
            out.violate("rejected_load_changed_state", i, "load_state_dict(%s part, strict=False) raised %s but changed %s" % (part, type(e).__name__, changed[:3]), **cls)
        return
    out.stats["probe:partial_state_dict_loaded[%s]" % part] += 1
    out.stats["oracle_comparisons"] += 1
    after = M.state_dict()
    for q in sorted(before):
        if q not in after:
            continue
        if q in aliases:
            continue
        if q.endswith("updated_strategy") and q not in chosen and any(c.startswith(q[: -len("updated_strategy")] + "_variational_distribution.") for c in chosen):
            # variational parameters of this strategy without its format flag: indistinguishable from a checkpoint of the
            # old unwhitened format, which the library converts on purpose
            out.stats["probe:legacy_format_conversion"] += 1
            continue
        want = sd[q] if q in chosen else before[q]
        if after[q].shape != want.shape or not torch.equal(torch.nan_to_num(after[q].detach()), torch.nan_to_num(want.detach().to(after[q].dtype))):
            out.violate(
                "partial_load_wrong_key",
                i,
                "load_state_dict(%s part, strict=False) on the %s model: %s %s" % (part, who, q, "does not hold the loaded value" if q in chosen else "was changed although the dict does not contain it"),
                key=q.rsplit(".", 1)[-1],
                in_dict=q in chosen,
                **cls,
            )
            break
    # (b) fresh-instance comparison of the next prediction
    probe = {"op": "predict", "seed": op["probe_seed"], "t": 2, "bundle": [], "grad": False}
    try:
        F = zoo.fresh_model(recipe, zoo.model_state(M, recipe)) if live.is_var else zoo.fresh_exact(recipe, zoo.exact_state(M))
        F.eval()
        F.likelihood.eval()
        rf = driver.predict(F, driver.test_args(recipe, probe), probe, False)
    except Exception as e:  # noqa
        out.stats["probe:partial_load_fresh_unavailable_" + type(e).__name__] += 1
        return
    # what users do before predicting: model.eval(); likelihood.eval() - also re-synchronises sub-modules switched on their own
    modes = [(m, m.training) for m in M.modules()]
    driver.set_mode(live, False)
    rm = driver.predict(M, driver.test_args(recipe, probe), probe, False)
    for m, t in modes:
        m.training = t
    if rm[0] == "ok" and rf[0] == "ok":
        bad, mx = compare.compare_obs(rm[1], rf[1], tol)
        out.stats["probe:prediction_after_partial_load_vs_fresh"] += 1
        if bad:
            out.violate("stale_after_load", i, "after load_state_dict(%s part, strict=False), %s of the %s model differs from a freshly constructed model with the same state by %.3g" % (part, bad[0][0], who, bad[0][1]), quantity=bad[0][0].split("_")[0], **cls)


def pure_rejection(recipe, live, op, exc_name):
    """Does a freshly constructed model with `live`'s visible state reject the same prediction the same way?"""
    try:
        F = zoo.fresh_model(recipe, zoo.model_state(live.model, recipe))
        F.eval()
        F.likelihood.eval()
        r = driver.predict(F, driver.test_args(recipe, op), op, op.get("lik", False))  # same autograd mode as the live call
        return r[0] == "exc" and r[1] == exc_name
    except Exception:  # noqa
        return False


def observe_saved(recipe, rec, src):
    """What a model restored from `rec` into a fresh object observes with the probe prediction."""
    try:
        if src.is_var:
            m = zoo.build_variational(recipe)
        else:
            ex = rec["extra"]
            inputs = tuple(ex[k] for k in sorted(ex) if k.startswith("train_inputs_"))
            m = zoo.build_exact(recipe, data={"inputs": inputs, "targets": ex["train_targets"], "fixed_noise": ex.get("fixed_noise")})
        m.load_state_dict(torch.load(io.BytesIO(rec["bytes"])))
        live = driver.Live(recipe, model=m)
        if src.is_var:
            live.x, live.y = rec["xy"]
        status, obs = driver.apply(live, rec["probe"], core.Outcome())
        return obs if status == "ok" else None
    except Exception:  # noqa
        return None


def rollback_into(out, i, live, rec, recipe, fam):
    M = live.model
    try:
        if not live.is_var:
            ex = rec["extra"]
            inputs = tuple(ex[k] for k in sorted(ex) if k.startswith("train_inputs_"))
            if "fixed_noise" in ex:
                M.likelihood.noise = ex["fixed_noise"]
            M.set_train_data(inputs if len(inputs) > 1 else inputs[0], ex["train_targets"], strict=False)
        else:
            live.x, live.y = rec["xy"]
        sd = torch.load(io.BytesIO(rec["bytes"]))
        cur = M.state_dict()
        if any(kk not in cur or cur[kk].shape != v.shape for kk, v in sd.items()):
            out.stats["skipped:rollback_shape_changed"] += 1
            return False
        M.load_state_dict(sd)
        return True
    except Exception as e:  # noqa
        msg = str(e)
        if isinstance(e, RuntimeError) and ("Missing key(s)" in msg or "Unexpected key(s)" in msg):
            # save point and live model differ in a lazily created buffer: an explicit strict-load rejection, nothing to judge
            out.stats["probe:rollback_strict_key_mismatch"] += 1
            return False
        out.violate("rollback_failed", i, "loading a save point into the live model raised %s(%s)" % (type(e).__name__, msg[:160]), family=fam)
        return False


# ----------------------------------------------------------------------------- render / simplify / budget


def render(history):
    r = history["recipe"]
    lines = ["# C18 history; recipe = " + json.dumps(r, sort_keys=True), "A = build(recipe)  # crash-free reference;  B = None  # execution with crashes"]
    for i, op in enumerate(history["ops"]):
        o = dict(op)
        k = o.pop("op")
        b = o.pop("bundle", None)
        s = "%2d: %s(%s)" % (i, k, ", ".join("%s=%r" % kv for kv in sorted(o.items())))
        if b is not None:
            s += "  under " + bundles.fmt(b)
        if k == "crash":
            s += "   # B = restore(snapshot(B or A)); from here on every op runs on A and B and is compared"
        lines.append(s)
    return "\n".join(lines)


def simplify(history):
    for i, op in enumerate(history["ops"]):
        b = op.get("bundle")
        if b:
            for j in range(len(b)):
                h = copy.deepcopy(history)
                h["ops"][i]["bundle"] = b[:j] + b[j + 1 :]
                yield h
        for key, val in (("lik", False), ("t", 1), ("grad", False), ("double", False), ("failed_first", False), ("target", "fresh"), ("k", 1)):
            if key in op and op[key] != val:
                h = copy.deepcopy(history)
                h["ops"][i][key] = val
                yield h
    r = history["recipe"]
    for key, val in (("batch", []), ("ard", False), ("mean", "zero"), ("active_dims", None), ("d", 1), ("kernel", "rbf"), ("lik", "gaussian"), ("learn_z", True)):
        if key in r and r[key] != val and not (key == "d" and r.get("active_dims")) and not (key == "lik" and r.get("strategy") in ("lmc", "indep_mt")):
            h = copy.deepcopy(history)
            if val is None:
                del h["recipe"][key]
            else:
                h["recipe"][key] = val
            yield h


def budget(tier):
    if tier == "quick":
        return {"runs": 1200, "wall": 240, "digest_sample": 16}
    return {"runs": 50000, "wall": 2400, "digest_sample": 64}
