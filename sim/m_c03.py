"""C03 - evaluation-mode outputs are history independent (exact GPs).
A live model is driven through a seeded history of public operations (and injected
failures); after every prediction the result is compared with a freshly constructed
model holding the same visible state.  DESIGN.md section 4.1."""
from __future__ import annotations

import copy
import io
import json
import pickle
import warnings

import gpytorch
import torch

from . import bundles, compare, core, zoo
from .zoo import FAULTS, SimFault

PROPERTY = "C03"
NAME = "c03"
RULE = (
    "a case is one history (model recipe + sequence of public operations, settings bundles and injected failures); "
    "non-trivial = it contains at least one cache-populating prediction, then at least one state- or cache-affecting "
    "operation (mode switch, optimiser steps, set_train_data, load_state_dict, fantasy creation, backward, parameter "
    "edit in training mode, copy/pickle replacement, a different settings bundle, or a failed operation), then another "
    "prediction that is compared with the fresh-instance oracle; distinct = distinct canonical sequence of "
    "(op kind, failure kind, settings-bundle class) per model family, counted with a hash set"
)
STUBBED = ["user-owned mean / kernel / model.forward with a SimFault fault point on the k-th call", "in-memory pickle bytes"]
ASSUMPTIONS = [
    "oracle = a freshly constructed model of the same recipe holding the state read through public getters "
    "(state_dict, train_inputs, train_targets, fixed noise), evaluated by the same real code under the same settings and torch seed",
    "tolerance 1e-6*max(1,|ref|) when every prediction since the last cache reset ran Cholesky code (observed <= 3e-8: low-rank/Woodbury paths and 1e-8 jitter), 1e-5 for grid-structured kernels (Toeplitz vs dense maths), 1e-3 when CG/Lanczos was enabled",
    "parameter edits happen only in training mode (C03 excludes eval-mode edits)",
]
EXPECTED_PROBES = {
    "quick": ["strategy_reused_after_mutation_class_op", "strategy_rebuilt", "failed_op_then_predict", "backward_through_caches"],
    "thorough": ["strategy_reused_after_mutation_class_op", "strategy_rebuilt", "failed_op_then_predict", "backward_through_caches", "iterative_regime"],
}

MUTATORS = {
    "train",
    "eval",
    "train_steps",
    "set_train_data",
    "load_state_dict",
    "fantasize",
    "backward",
    "perturb",
    "replace",
    "prior_predict",
    "sub_mode",
    "bad_set_train_data",
    "bad_load_state_dict",
    "bad_predict",
    "fault_predict",
    "bad_fantasize",
    "snapshot",
}


# ----------------------------------------------------------------------------- generation


def _test_points(rng):
    # tb: batch shape of the test inputs (a non-batch model evaluated on a batch of test sets, e.g. candidate sets)
    return {"seed": rng.randrange(1 << 30), "t": rng.randint(1, 4), "tb": rng.choice([[], [], [], [2], [3]])}


def gen_predict(rng, recipe, iterative=False, allow=None, p_each=0.3):
    tp = _test_points(rng)
    joint = recipe["n"] + tp["t"]
    if recipe["family"] == "multitask":
        joint *= recipe["tasks"]
    op = {"op": "predict", **tp, "bundle": bundles.gen_bundle(rng, joint, allow=allow, iterative=iterative, p_each=p_each)}
    op["lik"] = rng.random() < 0.25
    return op


def generate(rng, tier, index):
    thorough = tier == "thorough"
    faulty = (index % 2 == 1) if index >= 64 else (index % 4 == 3)
    fams = None
    recipe = zoo.gen_exact_recipe(rng, fams)
    fam = recipe["family"]
    iterative = thorough and rng.random() < 0.25 and fam in ("default", "kissgp")
    if iterative:
        recipe["n"] = max(recipe["n"], 6)
    # low-rank regime: CG solves and a Lanczos root truncated at 3 of n = 10..14 (what large data sets run into at
    # the default max_root_decomposition_size): the LOVE caches are genuinely approximate
    # missing observations: NaN training targets, every prediction under a NaN policy (mask / fill in any order)
    nan_run = fam in ("default", "multitask") and not iterative and rng.random() < 0.12
    if nan_run:
        recipe["nan_rate"] = rng.choice([0.2, 0.4])
        recipe.pop("late_data", None)
    lowrank = (not iterative) and (not nan_run) and fam == "default" and not recipe.get("batch") and rng.random() < 0.15
    if lowrank:
        recipe["n"] = rng.randint(10, 14)
    # swarm: which op kinds are enabled in this run and with what weight
    kinds = {
        "predict": 6.0,
        "train": 1.0,
        "eval": 1.0,
        "train_steps": 1.5,
        "set_train_data": 1.5,
        "load_state_dict": 1.2,
        "snapshot": 0.6,
        "fantasize": 0.8,
        "backward": 0.8,
        "perturb": 1.0,
        "prior_predict": 0.6,
        "sub_mode": 0.8,
    }
    for k in list(kinds):
        if k != "predict" and rng.random() < 0.35:
            del kinds[k]
    if faulty:
        fk = {"bad_set_train_data": 1.5, "bad_load_state_dict": 1.2, "bad_predict": 0.8, "fault_predict": 1.5, "bad_fantasize": 0.8, "fault_train": 0.5}
        for k in list(fk):
            if rng.random() < 0.3:
                del fk[k]
        if not fk:
            fk = {"fault_predict": 1.0}
        # keep ordinary operations >= ~70 % of steps
        tot = sum(kinds.values())
        scale = 0.3 * tot / (0.7 * sum(fk.values()))
        for k, w in fk.items():
            kinds[k] = w * min(scale, 1.5)
    # bundle knob subset for this run ("buggify" subset)
    all_knobs = [
        "fast_pred_var",
        "max_eager_kernel_size",
        "lazily_evaluate_kernels",
        "detach_test_caches",
        "skip_posterior_variances",
        "fast_pred_samples",
        "memory_efficient",
        "use_toeplitz",
        "sgpr_diagonal_correction",
        "fast_computations",
        "debug",
        "observation_nan_policy",
        "trace_mode",
    ]
    if rng.random() < 0.3:
        allow = None
    else:
        allow = set(rng.sample(all_knobs, rng.randint(0, 4)))
    p_each = rng.choice([0.25, 0.5, 0.9])
    max_len = rng.randint(3, 12) if not thorough else rng.randint(4, 40)

    items = sorted(kinds.items())
    ops = []
    # stratified prefixes: the first runs of a batch walk over all (mutator) x (family is random) orders
    # predict -> X -> predict, so every short order occurs in each batch
    strat = sorted(k for k in MUTATORS if k in ("train", "eval", "train_steps", "set_train_data", "load_state_dict", "fantasize", "backward", "perturb", "prior_predict", "sub_mode", "bad_set_train_data", "bad_load_state_dict", "bad_predict", "fault_predict", "bad_fantasize"))
    forced = None
    if index < 4 * len(strat) * 2:
        forced = strat[(index // 2) % len(strat)]
    ops.append(gen_predict(rng, recipe, iterative, allow, p_each))
    if forced:
        ops.append(gen_op(rng, forced, recipe, iterative, allow, p_each))
        ops.append(gen_predict(rng, recipe, iterative, allow, p_each))
    elif thorough and index < 4 * len(strat) * 2 + 2 * len(strat) ** 2:
        # thorough tier: every ordered PAIR of mutation-class operations between two predictions, twice
        j = (index - 4 * len(strat) * 2) // 2
        ops.append(gen_op(rng, strat[j % len(strat)], recipe, iterative, allow, p_each))
        ops.append(gen_op(rng, strat[(j // len(strat)) % len(strat)], recipe, iterative, allow, p_each))
        ops.append(gen_predict(rng, recipe, iterative, allow, p_each))
    while len(ops) < max_len:
        k = core.weighted_choice(rng, items)
        ops.append(gen_op(rng, k, recipe, iterative, allow, p_each))
    if ops[-1]["op"] != "predict":
        ops.append(gen_predict(rng, recipe, iterative, allow, p_each))
    core.sticky_bundles(rng, ops)
    if nan_run:
        for o in ops:
            if "bundle" in o:
                pol = rng.choice(["mask", "mask", "fill"])
                o["bundle"] = [b for b in o["bundle"] if b[0] != "observation_nan_policy"] + [["observation_nan_policy", {"value": pol}]]
    for o in ops:
        if o["op"] == "predict" and rng.random() < 0.08:
            o["at"] = "train"  # predict exactly at the current training inputs
    if lowrank:
        # a LOVE prediction first (so that low-rank caches exist), an exact one right after it
        p1, p2 = gen_predict(rng, recipe, False, allow, p_each), gen_predict(rng, recipe, False, allow, p_each)
        p1["bundle"] = [b for b in p1["bundle"] if b[0] not in ("fast_pred_var", "skip_posterior_variances")] + [["fast_pred_var", {"state": True, "num_probe_vectors": 2}]]
        p2["bundle"] = [b for b in p2["bundle"] if b[0] not in ("fast_pred_var", "fast_pred_samples", "skip_posterior_variances")]
        ops[0:0] = [p1, p2]
        extra = [["max_cholesky_size", {"value": 0}], ["eval_cg_tolerance", {"value": 1e-10}], ["cg_tolerance", {"value": 1e-10}], ["max_cg_iterations", {"value": 2000}], ["max_root_decomposition_size", {"value": 3}], ["max_lanczos_quadrature_iterations", {"value": 200}]]
        for o in ops:
            if "bundle" in o:
                o["bundle"] = [b for b in o["bundle"] if b[0] not in ("max_cholesky_size", "fast_computations", "max_root_decomposition_size")] + extra
    return {"recipe": recipe, "ops": ops, "header": {"faulty": faulty, "iterative": iterative, "lowrank": lowrank}}


def gen_op(rng, k, recipe, iterative, allow, p_each):
    fam = recipe["family"]
    if k == "predict":
        return gen_predict(rng, recipe, iterative, allow, p_each)
    if k in ("train", "eval", "snapshot"):
        return {"op": k}
    if k == "sub_mode":
        return {"op": k, "target": rng.choice(["likelihood", "covar_module", "mean_module"]), "train": rng.random() < 0.5}
    if k == "train_steps":
        return {"op": k, "k": rng.randint(1, 3), "opt": rng.choice(["sgd", "adam"]), "lr": rng.choice([0.05, 0.2])}
    if k == "set_train_data":
        # inplace: the caller overwrites the very tensors the model holds (a pre-allocated buffer) and passes them again
        kinds = ["same", "targets_only", "inputs_only", "newshape", "inplace", "inplace"]
        if fam == "grid":
            # (same: new inputs of the grid's shape that are not the grid - the kernel then is the plain base kernel)
            kinds = ["targets_only", "inplace", "same", "inputs_only"]
        return {"op": k, "kind": rng.choice(kinds), "seed": rng.randrange(1 << 30), "n": rng.randint(3, 8), "strict": rng.random() < 0.5}
    if k == "load_state_dict":
        return {"op": k, "src": rng.choice(["rand", "snap"]), "seed": rng.randrange(1 << 30), "which": rng.randrange(4), "scope": rng.choice(["all", "all", "likelihood", "kernel", "one"]), "pick": rng.randrange(1 << 16), "grid_shift": rng.random() < 0.4}
    if k == "fantasize":
        return {"op": k, "seed": rng.randrange(1 << 30), "m": rng.randint(1, 3), "bundle": bundles.gen_bundle(rng, recipe["n"] + 2, allow=allow, p_each=p_each * 0.5)}
    if k == "backward":
        return {"op": k, "seed": rng.randrange(1 << 30), "t": rng.randint(1, 3), "fpv": rng.random() < 0.5}
    if k == "perturb":
        return {"op": k, "seed": rng.randrange(1 << 30)}
    if k == "replace":
        return {"op": k, "how": rng.choice(["deepcopy", "pickle"])}
    if k == "prior_predict":
        return {"op": k, **_test_points(rng)}
    if k == "bad_set_train_data":
        return {"op": k, "kind": rng.choice(["bad_inputs", "good_inputs_bad_targets", "dtype", "good_inputs_bad_targets_dtype"]), "seed": rng.randrange(1 << 30)}
    if k == "bad_load_state_dict":
        return {"op": k, "kind": rng.choice(["missing", "unexpected", "misshaped"]), "seed": rng.randrange(1 << 30), "pick": rng.randrange(1 << 16)}
    if k == "bad_predict":
        return {"op": k, **_test_points(rng)}
    if k == "fault_predict":
        op = gen_predict(rng, recipe, iterative, allow, p_each)
        op["op"] = k
        op["site"] = rng.choice(["kernel", "kernel", "mean", "forward"])
        op["k"] = rng.randint(1, 6)
        return op
    if k == "fault_train":
        return {"op": k, "site": rng.choice(["kernel", "mean", "forward"]), "k": rng.randint(1, 3)}
    if k == "bad_fantasize":
        return {"op": k, "kind": rng.choice(["unbroadcastable", "fault_kernel", "fault_mean", "missing_noise"]), "seed": rng.randrange(1 << 30), "k": rng.randint(1, 4)}
    raise core.HarnessError("unknown op kind " + k)


# ----------------------------------------------------------------------------- execution


def _quiet():
    cm = warnings.catch_warnings()
    cm.__enter__()
    warnings.simplefilter("ignore")
    return cm


def test_args(recipe, op, model=None):
    d = recipe["d"]
    batch = recipe.get("batch", [])
    tb = op.get("tb") or []
    if batch or recipe["family"] in ("hadamard",):
        tb = []
    xs = zoo.rand(op["seed"], *tb, *batch, op["t"], d) * 1.2 - 0.1
    if recipe.get("one_d") and not tb and not batch and d == 1 and op.get("seed", 0) % 2 == 0:
        xs = xs.squeeze(-1)  # 1-D test inputs
    if recipe["family"] == "hadamard":
        idx = torch.randint(0, recipe["tasks"], (op["t"], 1), generator=zoo.gen(op["seed"] + 9))
        return (xs, idx)
    return (xs,)


def new_train_data(recipe, op, model):
    """Materialise the data of a set_train_data op.  Returns (inputs|None, targets|None, fixed_noise|None)."""
    fam = recipe["family"]
    kind = op["kind"]
    cur_in = model.train_inputs
    cur_n = cur_in[0].shape[-2]
    batch = list(cur_in[0].shape[:-2])
    d = recipe["d"]
    n = cur_n if kind != "newshape" else op["n"]
    if fam == "grid":
        n = cur_n
    x = zoo.make_inputs(op["seed"], batch, n, d)
    tasks = recipe.get("tasks") if fam == "multitask" else None
    y = make_y(op["seed"] + 3, x, tasks)
    inputs = (x,)
    if fam == "hadamard":
        idx = torch.randint(0, recipe["tasks"], (*batch, n, 1), generator=zoo.gen(op["seed"] + 5))
        inputs = (x, idx)
    fixed = None
    if recipe["lik"].startswith("fixed") and kind == "newshape":
        fixed = zoo.fixed_noise_vector(op["seed"], batch, n)
    if recipe.get("one_d") and len(inputs) == 1 and not batch and d == 1:
        inputs = (x.squeeze(-1),)
    y = zoo.with_nans(y, recipe, op["seed"])
    if kind == "targets_only":
        return None, y, None
    if kind == "inputs_only":
        return inputs, None, None
    return inputs, y, fixed


def make_y(seed, x, tasks):
    # large changes so genuine staleness is >= 1e-2
    return zoo.make_targets(seed, x, scale=3.0, tasks=tasks)


class Ctx:
    def __init__(self, history, out):
        self.h = history
        self.recipe = history["recipe"]
        self.out = out
        self.M = None
        self.snaps = []
        self.sides = []
        self.mutated_since_obs = False
        self.predicted_once = False
        self.failed_since_obs = False
        self.iter_since_reset = False
        self.strategy_flags = None
        self.last_bundle_class = None
        self.sketch = []


def bundle_class(b):
    return "fpv%d-lazy%d-eager%s-det%d" % (
        1 if bundles.has(b, "fast_pred_var", state=True) else 0,
        0 if bundles.has(b, "lazily_evaluate_kernels", state=False) else 1,
        "S" if any(n == "max_eager_kernel_size" and a["value"] < 100 for n, a in b) else "L",
        0 if bundles.has(b, "detach_test_caches", state=False) else 1,
    )


def ensure_eval(ctx):
    # what users do before predicting: model.eval(); likelihood.eval() - also when the root already is in eval mode
    # (a root-level call re-synchronises submodules that were switched on their own; it keeps the root's caches)
    ctx.M.eval()
    if ctx.M.likelihood is not None:
        ctx.M.likelihood.eval()


def do_predict(model, args, op, through_lik):
    """Run one prediction under the op's bundle and RNG seed; returns ('ok', obs) or ('exc', type name, message)."""
    torch.manual_seed(op["seed"])
    try:
        with bundles.entered(op.get("bundle", [])):
            dist = model(*args)
            if through_lik:
                dist = model.likelihood(dist)
            want_cov = True
            obs = compare.observe_dist(dist, want_cov)
        return ("ok", obs)
    except SimFault:
        raise
    except Exception as e:  # noqa
        return ("exc", type(e).__name__, str(e)[:200])


def oracle_predict(ctx, args, op, through_lik):
    """Fresh instance with the visible state of M, same settings, same seed."""
    FAULTS.disarm()
    try:
        state = zoo.exact_state(ctx.M)
        F = zoo.fresh_exact(ctx.recipe, state)
        F.eval()
        F.likelihood.eval()
    except Exception as e:  # noqa   visible state not constructible at all
        return ("torn", type(e).__name__, "fresh construction: " + str(e)[:200])
    return do_predict(F, args, op, through_lik)


def observe_and_compare(ctx, i, op, through_lik=False, opname="predict"):
    out = ctx.out
    M = ctx.M
    args = test_args(ctx.recipe, op)
    if op.get("at") == "train" and M.train_inputs is not None:
        args = tuple(t.detach().clone() for t in M.train_inputs)
        out.stats["probe:predict_at_training_inputs"] += 1
    b = op.get("bundle", [])
    created_now = M.prediction_strategy is None
    lazy_now = not bundles.has(b, "lazily_evaluate_kernels", state=False)
    if created_now:
        ctx.strategy_flags = {"lazy": lazy_now, "grid": None}
        ctx.iter_since_reset = False
        out.stats["probe:strategy_rebuilt"] += 1
    elif ctx.mutated_since_obs:
        out.stats["probe:strategy_reused_after_mutation_class_op"] += 1
    if bundles.is_iterative(b):
        ctx.iter_since_reset = True
        out.stats["probe:iterative_regime"] += 1
    if ctx.failed_since_obs:
        out.stats["probe:failed_op_then_predict"] += 1
    grid_before = grid_signature(M)
    rm = do_predict(M, args, op, through_lik)
    grid_after = grid_signature(M)
    if ctx.strategy_flags is not None:
        if created_now:
            # caches of this strategy are computed on the grid left behind by the creating call
            ctx.strategy_flags["grid"] = grid_after
            ctx.strategy_flags["regrid"] = False
        elif ctx.strategy_flags.get("grid") != grid_after:
            # any grid change while the strategy is alive (even one that is later undone) may have been
            # baked into a cache computed in between
            ctx.strategy_flags["grid"] = grid_after
            ctx.strategy_flags["regrid"] = True
        if ctx.strategy_flags.get("regrid"):
            out.stats["probe:regrid_since_strategy"] += 1
    rf = oracle_predict(ctx, args, op, through_lik)
    out.stats["oracle_comparisons"] += 1
    tol = tolerance(ctx.recipe, ctx.iter_since_reset)
    cls = {
        "family": ctx.recipe["family"],
        "lazy_flip": bool(ctx.strategy_flags and ctx.strategy_flags["lazy"] != lazy_now),
        "after_failed_op": ctx.failed_since_obs,
        "dynamic_grid": ctx.recipe["family"] == "kissgp" and not ctx.recipe.get("grid_bounds"),
        "regrid_since_strategy": bool(ctx.strategy_flags and ctx.strategy_flags.get("regrid")),
    }
    if rm[0] == "ok":
        for k in sorted(rm[1]):
            out.log.add("obs%d:%s" % (i, k), rm[1][k])
    else:
        out.log.add("obs%d:exc" % i, rm[1])
    if rm[0] == "ok" and rf[0] == "ok":
        oa, ob = rm[1], rf[1]
        if ctx.h.get("header", {}).get("lowrank"):
            out.stats["probe:lowrank_regime"] += 1
            if bundles.has(b, "fast_pred_var", state=True) or bundles.has(b, "fast_pred_samples", state=True):
                # a truncated Lanczos root depends on its random start vector: the cached one (drawn under the seed of an
                # earlier call) and the fresh model's are two legitimate approximations - only the mean is comparable
                oa = {q: v for q, v in oa.items() if q.startswith("mean")}
                ob = {q: v for q, v in ob.items() if q.startswith("mean")}
            else:
                out.stats["probe:lowrank_exact_prediction_compared"] += 1
        bad, mx = compare.compare_obs(oa, ob, tol)
        if not bad:
            out.note_diff("tol=%g" % tol, mx)
        if bad:
            q, diff, scale = bad[0]
            out.violate(
                "stale_prediction",
                i,
                "%s of live model differs from fresh model with the same state by %.3g (scale %.3g, tol %.1g) under %s"
                % (q, diff, scale, tol, bundles.fmt(b)),
                quantity=q.split("_")[0],
                **cls,
            )
    elif rf[0] == "torn":
        out.violate(
            "torn_state",
            i,
            "the live model's visible state (state_dict + training data) can no longer be loaded into a freshly "
            "constructed model of the same recipe: %s; live model %s" % (rf[2], _r(rm)),
            **cls,
        )
    elif rm[0] == "ok" and rf[0] == "exc":
        # the fresh model rejects this (input, settings) pair as a pure function of its arguments (e.g. more LOVE
        # probe vectors than grid points); the live model answered from caches.  Nothing to compare against.
        out.stats["probe:fresh_rejects_live_answers_" + rf[1]] += 1
    elif rm[0] != rf[0]:
        out.violate(
            "raise_mismatch",
            i,
            "live model %s but fresh model with the same state %s under %s"
            % (_r(rm), _r(rf), bundles.fmt(b)),
            live=rm[1] if rm[0] == "exc" else "ok",
            fresh=rf[1] if rf[0] == "exc" else "ok",
            **cls,
        )
    else:
        out.stats["rejected:predict_both_raise_" + rm[1]] += 1
        if rm[1] != rf[1]:
            out.violate("raise_type_mismatch", i, "live raises %s, fresh raises %s" % (rm[1], rf[1]), **cls)
    ctx.mutated_since_obs = False
    ctx.failed_since_obs = False
    ctx.predicted_once = True


def grid_signature(M):
    """Hash of the interpolation-grid buffers, read through state_dict (public)."""
    import hashlib

    h = hashlib.sha1()
    for k, v in sorted(M.state_dict().items()):
        if ".grid_" in k or k.endswith("has_initialized_grid"):
            h.update(k.encode())
            h.update(v.detach().cpu().contiguous().numpy().tobytes())
    return h.hexdigest()


def tolerance(recipe, iterative):
    """Tolerance regime (DESIGN.md section 6): CG/Lanczos caches carry solver error; grid-structured
    kernels (Toeplitz/Kronecker maths vs dense maths on the same grid) differ by ~1e-8 as pure functions of
    the settings, and their eval-mode kernel cache is legitimately shared between settings."""
    if iterative:
        return compare.TOL_ITER
    if recipe["family"] in ("kissgp", "grid"):
        return 1e-5
    return compare.TOL_EXACT


def _r(r):
    return "returned a distribution" if r[0] == "ok" else "raised %s(%s)" % (r[1], r[2])


def mll_loss(M):
    mll = gpytorch.mlls.ExactMarginalLogLikelihood(M.likelihood, M)
    out = M(*M.train_inputs)
    return -mll(out, M.train_targets).sum()


def step(ctx, i, op):
    out = ctx.out
    M = ctx.M
    recipe = ctx.recipe
    k = op["op"]
    out.stats["op:" + k] += 1
    fam = recipe["family"]
    abstract = "%s|%s|strat%d|mut%d" % (fam, "T" if M.training else "E", int(M.prediction_strategy is not None), int(ctx.mutated_since_obs))
    tag = k

    if k == "predict":
        ensure_eval(ctx)
        observe_and_compare(ctx, i, op, through_lik=op.get("lik", False))
        tag = "predict[%s]" % bundle_class(op.get("bundle", []))
    elif k == "prior_predict":
        ensure_eval(ctx)
        args = test_args(recipe, op)
        torch.manual_seed(op["seed"])
        with gpytorch.settings.prior_mode(True):
            d = M(*args)
            out.log.add("prior%d" % i, d.mean)
        ctx.mutated_since_obs = True
    elif k == "train":
        M.train()
        M.likelihood.train()
        ctx.mutated_since_obs = True
    elif k == "eval":
        M.eval()
        M.likelihood.eval()
        ctx.mutated_since_obs = True
    elif k == "sub_mode":
        # a submodule switched on its own (e.g. likelihood.train() for a likelihood-only fit, covar_module.eval())
        getattr(M, op["target"]).train(op["train"])
        ctx.mutated_since_obs = True
        tag = "sub_mode[%s,%s]" % (op["target"], "T" if op["train"] else "E")
    elif k == "snapshot":
        ctx.snaps.append({kk: v.detach().clone() for kk, v in M.state_dict().items()})
    elif k == "train_steps":
        M.train()
        M.likelihood.train()
        opt = (torch.optim.SGD if op["opt"] == "sgd" else torch.optim.Adam)(M.parameters(), lr=op["lr"])
        for _ in range(op["k"]):
            opt.zero_grad()
            try:
                loss = mll_loss(M)
                loss.backward()
            except Exception as e:  # numerical failure of the objective is not C03's business
                out.stats["rejected:train_step_" + type(e).__name__] += 1
                break
            if not all(torch.isfinite(p.grad).all() for p in M.parameters() if p.grad is not None):
                out.stats["rejected:train_step_nonfinite_grad"] += 1
                break
            opt.step()
        ctx.mutated_since_obs = True
    elif k == "perturb":
        if M.training:
            zoo.randomise_parameters(M, op["seed"], scale=0.5)
            ctx.mutated_since_obs = True
        else:
            out.stats["skipped:perturb_in_eval"] += 1
            tag = "skipped"
    elif k == "set_train_data":
        if op["kind"] == "inplace":
            nx, ny, _ = new_train_data(recipe, dict(op, kind="same"), M)
            with torch.no_grad():
                if recipe["family"] != "grid":
                    for cur_t, new_t in zip(M.train_inputs, nx):
                        cur_t.copy_(new_t.reshape(cur_t.shape))
                M.train_targets.copy_(ny)
            inputs, targets, fixed = tuple(M.train_inputs), M.train_targets, None
            out.stats["probe:set_train_data_same_tensor_objects"] += 1
        else:
            inputs, targets, fixed = new_train_data(recipe, op, M)
        strict = op["strict"] and op["kind"] != "newshape"
        if fixed is not None:
            M.likelihood.noise = fixed
        if inputs is not None and len(inputs) == 1:
            inputs = inputs[0]
        M.set_train_data(inputs=inputs, targets=targets, strict=strict)
        ctx.mutated_since_obs = True
        tag = "set_train_data[%s]" % op["kind"]
    elif k == "load_state_dict":
        if op["src"] == "snap" and ctx.snaps:
            sd = ctx.snaps[op["which"] % len(ctx.snaps)]
            cur = M.state_dict()
            if any(kk not in cur or cur[kk].shape != v.shape for kk, v in sd.items()):
                out.stats["skipped:snapshot_shape_changed"] += 1
                return
        else:
            r_donor = recipe
            if op.get("grid_shift") and recipe["family"] == "kissgp" and recipe.get("grid_bounds") and op.get("scope", "all") == "all":
                # a checkpoint of the same architecture with another (fixed) interpolation grid: same shapes, other buffers
                r_donor = dict(recipe, grid_bounds=[[lo - 0.2, hi + 0.3] for lo, hi in recipe["grid_bounds"]])
                out.stats["probe:load_state_dict_other_grid"] += 1
            donor = zoo.build_exact(r_donor, data=_cur_data(M, recipe))
            zoo.randomise_parameters(donor, op["seed"])
            # a donor that has been used once, like a trained model: buffers that are created lazily (RFF weights of a
            # kernel built without num_dims, a dynamic KISS-GP grid) exist in its state dict
            donor.eval()
            try:
                with torch.no_grad():
                    donor(*test_args(recipe, {"seed": op["seed"] + 1, "t": 2}))
            except Exception:  # noqa
                pass
            sd = donor.state_dict()
            scope = op.get("scope", "all")
            if scope != "all":
                # a state that differs from the current one only in part (one module's subtree, or one tensor)
                cur = {kk: v.detach().clone() for kk, v in M.state_dict().items()}
                pkeys = sorted(n for n, _ in M.named_parameters())
                if scope == "likelihood":
                    chosen = [kk for kk in pkeys if kk.startswith("likelihood.")]
                elif scope == "kernel":
                    chosen = [kk for kk in pkeys if kk.startswith("covar_module.")]
                else:
                    chosen = [pkeys[op.get("pick", 0) % len(pkeys)]]
                for kk in chosen:
                    if kk in sd and sd[kk].shape == cur[kk].shape:
                        cur[kk] = sd[kk].detach().clone()
                sd = cur
        try:
            M.load_state_dict(sd)
        except RuntimeError:
            # a strict load that torch rejects (e.g. the state dict lacks a lazily created buffer): a failed operation
            out.stats["rejected:load_state_dict_strict_mismatch"] += 1
            ctx.failed_since_obs = True
        ctx.mutated_since_obs = True
    elif k == "fantasize":
        if M.training or M.prediction_strategy is None:
            out.stats["skipped:fantasize_precondition"] += 1
            tag = "skipped"
        else:
            try:
                with bundles.entered(op.get("bundle", [])):
                    ctx.sides.append(_fantasize(M, recipe, op))
                out.stats["probe:fantasy_created"] += 1
            except Exception as e:  # noqa  (SimFault is handled above / re-raised where armed)
                out.stats["rejected:fantasize_" + type(e).__name__] += 1
                ctx.failed_since_obs = True
            ctx.mutated_since_obs = True
    elif k == "backward":
        ensure_eval(ctx)
        args = test_args(recipe, op)
        torch.manual_seed(op["seed"])
        bundle = [["detach_test_caches", {"state": False}]]
        if op.get("fpv"):
            bundle.append(["fast_pred_var", {"state": True}])
        try:
            with bundles.entered(bundle):
                d = M(*args)
                (d.mean.sum() + d.variance.sum()).backward()
            out.stats["probe:backward_through_caches"] += 1
        except RuntimeError as e:
            if "second time" in str(e):
                out.stats["probe:second_backward_failed"] += 1
            else:
                out.stats["rejected:backward_" + type(e).__name__] += 1
        if M.prediction_strategy is None or not getattr(M.prediction_strategy, "_memoize_cache", None):
            out.stats["probe:clear_cache_hook_fired"] += 1
        ctx.mutated_since_obs = True
    elif k == "replace":
        try:
            if op["how"] == "deepcopy":
                ctx.M = copy.deepcopy(M)
            else:
                ctx.M = pickle.loads(pickle.dumps(M))
            ctx.mutated_since_obs = True
        except Exception as e:  # snapshot mechanisms are judged by C18
            out.stats["rejected:replace_%s_%s" % (op["how"], type(e).__name__)] += 1
    # ------------------------------------------------------------------ injected failures
    elif k == "bad_set_train_data":
        cur_in = M.train_inputs
        n = cur_in[0].shape[-2]
        batch = list(cur_in[0].shape[:-2])
        good_x = zoo.make_inputs(op["seed"], batch, n, recipe["d"])
        good_in = (good_x,) if fam != "hadamard" else (good_x, cur_in[1])
        if fam == "grid":
            good_in = tuple(cur_in)
        tasks = recipe.get("tasks") if fam == "multitask" else None
        good_y = make_y(op["seed"] + 3, good_x, tasks)
        kind = op["kind"]
        if kind == "bad_inputs":
            bad_x = zoo.make_inputs(op["seed"], batch, n + 1, recipe["d"])
            a = {"inputs": (bad_x,) + tuple(good_in[1:]), "targets": good_y}
        elif kind == "good_inputs_bad_targets":
            a = {"inputs": good_in, "targets": make_y(op["seed"] + 3, zoo.make_inputs(op["seed"], batch, n + 1, recipe["d"]), tasks)}
        elif kind == "dtype":
            a = {"inputs": tuple(t.float() if t.is_floating_point() else t for t in good_in), "targets": good_y}
        else:
            a = {"inputs": good_in, "targets": good_y.float()}
        if len(a["inputs"]) == 1:
            a["inputs"] = a["inputs"][0]
        try:
            M.set_train_data(strict=True, **a)
            raise core.HarnessError("bad set_train_data was accepted")
        except RuntimeError:
            out.stats["rejected:set_train_data_" + kind] += 1
            out.stats["fault:rejected_set_train_data"] += 1
        ctx.failed_since_obs = True
        ctx.mutated_since_obs = True
        tag = "bad_set_train_data[%s]" % kind
    elif k == "bad_load_state_dict":
        donor = zoo.build_exact(recipe, data=_cur_data(M, recipe))
        zoo.randomise_parameters(donor, op["seed"])
        sd = dict(donor.state_dict())
        keys = sorted(sd)
        pick = keys[op["pick"] % len(keys)]
        if op["kind"] == "missing":
            del sd[pick]
        elif op["kind"] == "unexpected":
            sd["covar_module.no_such_parameter"] = torch.zeros(1, dtype=zoo.DT)
        else:
            sd[pick] = torch.zeros(*sd[pick].shape, 3, dtype=sd[pick].dtype)
        try:
            M.load_state_dict(sd)
            # constraint-bound buffers are deliberately loaded non-strictly by the library
            out.stats["probe:bad_load_accepted_" + op["kind"]] += 1
        except RuntimeError:
            out.stats["rejected:load_state_dict_" + op["kind"]] += 1
            out.stats["fault:failed_strict_load_state_dict"] += 1
            ctx.failed_since_obs = True
        ctx.mutated_since_obs = True
        tag = "bad_load_state_dict[%s]" % op["kind"]
    elif k == "bad_predict":
        ensure_eval(ctx)
        xs = zoo.rand(op["seed"], op["t"], recipe["d"] + 2)
        try:
            d = M(xs) if fam != "hadamard" else M(xs, torch.zeros(op["t"], 1, dtype=torch.long))
            d.mean.sum().item()
            compare.dense(d.lazy_covariance_matrix).sum().item()
            out.stats["probe:bad_predict_accepted"] += 1
        except Exception as e:  # noqa
            out.stats["rejected:predict_wrong_width_" + type(e).__name__] += 1
            out.stats["fault:failed_prediction"] += 1
            ctx.failed_since_obs = True
        ctx.mutated_since_obs = True
    elif k == "fault_predict":
        ensure_eval(ctx)
        args = test_args(recipe, op)
        FAULTS.arm(op["site"], op["k"])
        try:
            r = do_predict(M, args, op, False)
            if r[0] == "exc":
                out.stats["rejected:predict_" + r[1]] += 1
        except SimFault:
            out.stats["fault:user_module_%s" % op["site"]] += 1
            ctx.failed_since_obs = True
        finally:
            FAULTS.disarm()
        ctx.mutated_since_obs = True
        tag = "fault_predict[%s]" % op["site"]
    elif k == "fault_train":
        M.train()
        M.likelihood.train()
        FAULTS.arm(op["site"], op["k"])
        try:
            mll_loss(M).backward()
        except SimFault:
            out.stats["fault:user_module_train_%s" % op["site"]] += 1
            ctx.failed_since_obs = True
        except Exception as e:  # noqa
            out.stats["rejected:train_step_" + type(e).__name__] += 1
        finally:
            FAULTS.disarm()
        ctx.mutated_since_obs = True
    elif k == "bad_fantasize":
        if M.training or M.prediction_strategy is None:
            out.stats["skipped:fantasize_precondition"] += 1
            tag = "skipped"
        else:
            kind = op["kind"]
            try:
                if kind == "unbroadcastable":
                    xf = zoo.rand(op["seed"], 5, 7, 2, recipe["d"])
                    yf = zoo.randn(op["seed"], 4, 2)
                    M.get_fantasy_model(xf, yf)
                elif kind == "missing_noise":
                    if not recipe["lik"].startswith("fixed"):
                        out.stats["skipped:missing_noise_not_fixed"] += 1
                        return
                    fop = dict(op)
                    fop["m"] = 2
                    _fantasize(M, recipe, fop, drop_noise=True)
                else:
                    FAULTS.arm("kernel" if kind == "fault_kernel" else "mean", op["k"])
                    fop = dict(op)
                    fop["m"] = 2
                    ctx.sides.append(_fantasize(M, recipe, fop))
                    out.stats["probe:fantasy_created"] += 1
            except SimFault:
                out.stats["fault:failed_fantasy_user_module"] += 1
                ctx.failed_since_obs = True
            except Exception as e:  # noqa  (SimFault is handled above / re-raised where armed)
                out.stats["rejected:fantasize_%s_%s" % (kind, type(e).__name__)] += 1
                out.stats["fault:failed_fantasy"] += 1
                ctx.failed_since_obs = True
            finally:
                FAULTS.disarm()
            ctx.mutated_since_obs = True
            tag = "bad_fantasize[%s]" % kind
    else:
        raise core.HarnessError("unknown op " + k)
    out.transitions.add(abstract + "->" + tag)
    ctx.sketch.append(tag)


def _cur_data(M, recipe):
    lik = M.likelihood
    fixed = lik.noise_covar.noise if recipe["lik"].startswith("fixed") else None
    return {"inputs": M.train_inputs, "targets": M.train_targets, "fixed_noise": fixed}


def _fantasize(M, recipe, op, drop_noise=False):
    fam = recipe["family"]
    batch = list(M.train_inputs[0].shape[:-2])
    m = op["m"]
    xf = zoo.rand(op["seed"], *batch, m, recipe["d"])
    tasks = recipe.get("tasks") if fam == "multitask" else None
    yf = zoo.make_targets(op["seed"] + 1, xf, tasks=tasks)
    kw = {}
    if recipe["lik"].startswith("fixed") and not drop_noise:
        kw["noise"] = 0.05 + 0.2 * zoo.rand(op["seed"] + 2, *batch, m)
    inputs = xf
    if fam == "hadamard":
        inputs = [xf, torch.randint(0, recipe["tasks"], (*batch, m, 1), generator=zoo.gen(op["seed"] + 5))]
    return M.get_fantasy_model(inputs, yf, **kw)


def execute(history):
    out = core.Outcome()
    from . import m_c20

    m_c20._capture_pristine()
    m_c20.reset_globals()
    FAULTS.disarm()
    cm = _quiet()
    try:
        recipe = history["recipe"]
        ctx = Ctx(history, out)
        torch.manual_seed(recipe["init_seed"])
        ctx.M = zoo.build_exact(recipe)
        zoo.randomise_parameters(ctx.M, recipe["init_seed"])
        seen_pred = False
        seen_mut_after_pred = False
        for i, op in enumerate(history["ops"]):
            out.steps += 1
            before = ctx.mutated_since_obs or ctx.failed_since_obs
            step(ctx, i, op)
            if op["op"] == "predict":
                if seen_pred and before:
                    seen_mut_after_pred = True
                seen_pred = True
        out.nontrivial = seen_mut_after_pred
        out.sketch = recipe["family"] + ":" + ">".join(ctx.sketch)
    finally:
        cm.__exit__(None, None, None)
        FAULTS.disarm()
        m_c20.reset_globals()
    return out


# ----------------------------------------------------------------------------- rendering / simplification / budget


def render(history):
    r = history["recipe"]
    lines = ["# C03 history; recipe = " + json.dumps(r, sort_keys=True), "M = build(recipe); randomise_parameters(M, init_seed)"]
    for i, op in enumerate(history["ops"]):
        o = dict(op)
        k = o.pop("op")
        b = o.pop("bundle", None)
        s = "%2d: %s(%s)" % (i, k, ", ".join("%s=%r" % kv for kv in sorted(o.items())))
        if b is not None:
            s += "  under " + bundles.fmt(b)
        if k == "predict":
            s += "   # compared with fresh(recipe, state_of(M)) under the same settings"
        lines.append(s)
    return "\n".join(lines)


def simplify(history):
    ops = history["ops"]
    # simpler bundles
    for i, op in enumerate(ops):
        b = op.get("bundle")
        if b:
            for j in range(len(b)):
                h = copy.deepcopy(history)
                h["ops"][i]["bundle"] = b[:j] + b[j + 1 :]
                yield h
        if op.get("lik"):
            h = copy.deepcopy(history)
            h["ops"][i]["lik"] = False
            yield h
        if op.get("t", 1) > 1:
            h = copy.deepcopy(history)
            h["ops"][i]["t"] = 1
            yield h
    r = history["recipe"]
    for key, val in (("batch", []), ("ard", False), ("mean", "zero"), ("active_dims", None), ("d", 1), ("kernel", "rbf"), ("lik", "gaussian")):
        if key in r and r[key] != val and not (key == "d" and r.get("active_dims")):
            if key == "kernel" and r["family"] == "rff":
                continue
            h = copy.deepcopy(history)
            if val is None:
                del h["recipe"][key]
            else:
                h["recipe"][key] = val
            yield h


def budget(tier):
    if tier == "quick":
        return {"runs": 1400, "wall": 240, "digest_sample": 16}
    return {"runs": 60000, "wall": 2400, "digest_sample": 64}
