"""Determinism self-test: the same (VERIF_SEED, index) must give the same event-log digest
 - in forked pool workers (16 and 4 workers, histories interleaved differently over processes),
 - in a fresh interpreter with another PYTHONHASHSEED, executing the indices in reverse order.
A mismatch means some nondeterminism source is not behind the simulator's seam."""
from __future__ import annotations

import json
import os
import subprocess
import sys

from . import core, runner


def determinism(args):
    mname = args.machine
    n = args.n
    machine, tot16 = runner.run_machine_batch(mname, args.tier, args.seed, n, 16, None, n)
    _, tot4 = runner.run_machine_batch(mname, args.tier, args.seed, n, 4, None, n)
    idxs = sorted(tot16["digests"])
    bad = [i for i in idxs if tot16["digests"][i] != tot4["digests"].get(i)]
    # fresh interpreters, other hash seeds, reversed order, in chunks run in parallel
    chunks = [idxs[i::8][::-1] for i in range(8)]
    procs = []
    for j, ch in enumerate(chunks):
        if not ch:
            continue
        env = dict(os.environ)
        env["PYTHONHASHSEED"] = str(1000 + j)
        env["VSIM_REEXEC"] = "1"
        cmd = [sys.executable, runner.VSIM, "digest", mname, "--tier", args.tier, "--seed", str(args.seed), "--indices", ",".join(map(str, ch))]
        procs.append((ch, subprocess.Popen(cmd, env=env, stdout=subprocess.PIPE, stderr=subprocess.PIPE, text=True)))
    fresh = {}
    for ch, p in procs:
        so, se = p.communicate(timeout=3000)
        if p.returncode != 0:
            print("HARNESS-ERROR digest subprocess failed:\n" + se[-1500:])
            return 2
        line = [ln for ln in so.splitlines() if ln.startswith("DIGESTS ")][-1]
        fresh.update({int(k): v for k, v in json.loads(line[len("DIGESTS ") :]).items()})
    bad2 = [i for i in idxs if fresh.get(i) != tot16["digests"][i]]
    print(
        "determinism %s tier=%s seed=%d: %d histories; 16-vs-4 workers mismatches=%d; pool-vs-fresh-interpreter(other PYTHONHASHSEED, reversed order) mismatches=%d"
        % (mname, args.tier, args.seed, len(idxs), len(bad), len(bad2))
    )
    if bad or bad2:
        print("MISMATCH indices:", (bad + bad2)[:20])
        return 2
    return 0
