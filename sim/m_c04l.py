"""C04 (model lists) - IndependentModelList.get_fantasy_model: every sub-model of the returned list equals
conditioning from scratch, every sub-model of the source list is left untouched - also when the creation
fails part-way (the first sub-models' fantasies were already created when a later one raises)."""
from __future__ import annotations

import copy
import json
import warnings

import gpytorch
import torch

from . import bundles, compare, core, zoo
from .m_c04 import Node, diff_source, fantasy_data, predict, scratch_model, snapshot_source, test_args, tolerance
from .zoo import FAULTS, SimFault

PROPERTY = "C04"
NAME = "c04l"
RULE = (
    "model-list machine: a case is one history on an IndependentModelList of 2-3 exact GPs (own recipes, Gaussian or "
    "fixed-noise likelihoods): list predictions, list fantasy creation (per-model inputs/targets/noise), creations that "
    "fail in the k-th sub-model; non-trivial = a fantasy list was created and predicted from, or a creation failed "
    "part-way and every source sub-model was re-checked"
)
STUBBED = ["user-owned mean / kernel / model.forward with a SimFault fault point on the k-th call"]
ASSUMPTIONS = ["same oracles as m_c04, applied per sub-model; tolerance 1e-6"]
EXPECTED_PROBES = {
    "quick": ["fantasy_list_created", "partial_failure_source_checked", "fantasy_list_predicted"],
    "thorough": ["fantasy_list_created", "partial_failure_source_checked", "fantasy_list_predicted"],
}


def generate(rng, tier, index):
    k = rng.choice([2, 2, 3])
    recipes = []
    d = rng.choice([1, 2])
    for _ in range(k):
        r = zoo.gen_exact_recipe(rng, ["default"])
        r["d"] = d
        r["batch"] = []
        r.pop("active_dims", None)
        r.pop("priors", None)
        recipes.append(r)
    allow = {"fast_pred_var", "detach_test_caches", "max_eager_kernel_size", "lazily_evaluate_kernels"}
    p_each = rng.choice([0.3, 0.7])
    n_ops = rng.randint(3, 8) if tier == "quick" else rng.randint(4, 20)

    def gp(node=None):
        return {"op": "predict", "node": rng.randrange(4) if node is None else node, "seed": rng.randrange(1 << 30), "t": rng.randint(1, 3), "bundle": bundles.gen_bundle(rng, 12, allow=allow, p_each=p_each)}

    def gf(node=None, bad=False):
        op = {"op": "fantasize", "node": rng.randrange(4) if node is None else node, "seed": rng.randrange(1 << 30), "m": rng.randint(1, 3), "bundle": bundles.gen_bundle(rng, 12, allow=allow, p_each=p_each)}
        if bad:
            op["fail_in"] = rng.randrange(k)
            op["fail_kind"] = rng.choice(["unbroadcastable", "fault_kernel", "fault_mean", "missing_noise"])
            op["k"] = rng.randint(1, 4)
        return op

    ops = [gp(0), gf(0), gp(1)]
    while len(ops) < n_ops:
        c = core.weighted_choice(rng, [("predict", 4.0), ("fantasize", 2.5), ("bad", 1.5 if index % 2 else 0.0)])
        ops.append(gp() if c == "predict" else gf(bad=(c == "bad")))
    ops.append(gp())
    return {"recipes": recipes, "ops": ops}


class LNode:
    def __init__(self, mlist, subs, depth):
        self.mlist = mlist
        self.subs = subs  # list of m_c04.Node (model + independently accumulated data)
        self.depth = depth


def execute(history):
    out = core.Outcome()
    from . import m_c20

    m_c20._capture_pristine()
    m_c20.reset_globals()
    FAULTS.disarm()
    cm = warnings.catch_warnings()
    cm.__enter__()
    warnings.simplefilter("ignore")
    try:
        recipes = history["recipes"]
        k = len(recipes)
        roots, sds = [], []
        for r in recipes:
            torch.manual_seed(r["init_seed"])
            m = zoo.build_exact(r)
            zoo.randomise_parameters(m, r["init_seed"])
            m.eval()
            m.likelihood.eval()
            roots.append(m)
            sds.append({kk: v.detach().clone() for kk, v in m.state_dict().items()})
        ml = gpytorch.models.IndependentModelList(*roots)
        ml.eval()
        subs = []
        for r, m in zip(recipes, roots):
            fixed = m.likelihood.noise_covar.noise.detach().clone() if r["lik"].startswith("fixed") else None
            subs.append(Node(m, tuple(t.detach().clone() for t in m.train_inputs), m.train_targets.detach().clone(), fixed, 0, None))
        nodes = [LNode(ml, subs, 0)]
        sketch = []
        created = predicted = partial = False
        for i, op in enumerate(history["ops"]):
            out.steps += 1
            kind = op["op"]
            out.stats["op:" + kind] += 1
            ln = nodes[op["node"] % len(nodes)]
            tag = kind
            if kind == "predict":
                args = [test_args(r, dict(op, seed=op["seed"] + j, batched_x=False), s)[0] for j, (r, s) in enumerate(zip(recipes, ln.subs))]
                torch.manual_seed(op["seed"])
                try:
                    with bundles.entered(op.get("bundle", [])), torch.no_grad():
                        dists = ln.mlist(*args)
                        obs = [compare.observe_dist(dd) for dd in dists]
                    res = ("ok", obs)
                except Exception as e:  # noqa
                    res = ("exc", type(e).__name__, str(e)[:160])
                for j, (r, s) in enumerate(zip(recipes, ln.subs)):
                    R = scratch_model(r, sds[j], s)
                    rr = predict(R, (args[j],), dict(op, lik=False))
                    out.stats["oracle_comparisons"] += 1
                    cls = {"family": "modellist", "lik": r["lik"], "depth": min(ln.depth, 2), "sub": j}
                    if res[0] == "ok" and rr[0] == "ok":
                        bad, mx = compare.compare_obs(res[1][j], rr[1], tolerance(r))
                        if bad:
                            out.violate(
                                "fantasy_vs_scratch" if ln.depth else "source_prediction_changed",
                                i,
                                "sub-model %d of the %s list: %s differs from an exact GP built from scratch by %.3g under %s" % (j, "fantasy" if ln.depth else "source", bad[0][0], bad[0][1], bundles.fmt(op.get("bundle", []))),
                                quantity=bad[0][0],
                                **cls,
                            )
                        else:
                            out.note_diff("tol=%g" % tolerance(r), mx)
                    elif res[0] == "exc" and rr[0] == "ok":
                        out.violate("fantasy_raises" if ln.depth else "source_raises", i, "list prediction raised %s(%s) but the from-scratch sub-model %d predicts" % (res[1], res[2], j), exc=res[1], **cls)
                        break
                if res[0] == "ok":
                    for o in res[1]:
                        out.log.add("obs%d" % i, o["mean"])
                if ln.depth:
                    predicted = True
                    out.stats["probe:fantasy_list_predicted"] += 1
                tag = "predict[d%d]" % min(ln.depth, 2)
            elif kind == "fantasize":
                if any(s.model.prediction_strategy is None for s in ln.subs) or ln.depth >= 3:
                    out.stats["skipped:precondition"] += 1
                    sketch.append("skipped")
                    continue
                before = [snapshot_source(s.model) for s in ln.subs]
                data = [fantasy_data(r, s, dict(op, seed=op["seed"] + 31 * j, pattern="same", f=2)) for j, (r, s) in enumerate(zip(recipes, ln.subs))]
                xs = [dta[0][0] for dta in data]
                ys = [dta[1] for dta in data]
                noises = [dta[2] for dta in data]
                fail_in = op.get("fail_in")
                fk = op.get("fail_kind")
                if fail_in is not None:
                    fail_in %= len(ln.subs)
                    if fk == "unbroadcastable":
                        ys[fail_in] = zoo.randn(op["seed"], 5, 7, *ys[fail_in].shape)
                    elif fk == "missing_noise":
                        if noises[fail_in] is None:
                            out.stats["skipped:missing_noise_not_fixed"] += 1
                            sketch.append("skipped")
                            continue
                        noises = list(noises)
                        # drop the noise of this sub-model only
                        noises[fail_in] = None
                kw = {"noise": noises} if any(nz is not None for nz in noises) else {}
                failed = None
                newl = None
                try:
                    if fail_in is not None and fk in ("fault_kernel", "fault_mean"):
                        # fire in the fail_in-th sub-model: count calls from there (earlier sub-models consume calls, so arm late)
                        FAULTS.arm("kernel" if fk == "fault_kernel" else "mean", op["k"] + 2 * fail_in)
                    with bundles.entered(op.get("bundle", [])):
                        newl = ln.mlist.get_fantasy_model(xs, ys, **kw)
                except SimFault:
                    failed = "SimFault"
                    out.stats["fault:failed_creation_user_module"] += 1
                except Exception as e:  # noqa
                    failed = type(e).__name__
                    out.stats["rejected:fantasize_%s" % failed] += 1
                    if fail_in is not None:
                        out.stats["fault:failed_creation_" + fk] += 1
                finally:
                    FAULTS.disarm()
                for j, s in enumerate(ln.subs):
                    diffs = diff_source(before[j], s.model)
                    out.stats["oracle_comparisons"] += 1
                    for what, detail in diffs[:2]:
                        out.violate(
                            "source_touched",
                            i,
                            "IndependentModelList.get_fantasy_model (%s): sub-model %d: %s" % ("failed with " + failed if failed else "succeeded", j, detail),
                            family="modellist",
                            what=what,
                            failed=bool(failed),
                        )
                if failed:
                    partial = True
                    out.stats["probe:partial_failure_source_checked"] += 1
                    tag = "fantasize[failed:%s]" % (fk or failed)
                elif newl is not None:
                    new_subs = []
                    ok_struct = isinstance(newl, gpytorch.models.IndependentModelList) and len(newl.models) == len(ln.subs)
                    if not ok_struct:
                        out.violate("fantasy_list_structure", i, "get_fantasy_model returned %s with %s sub-models" % (type(newl).__name__, len(getattr(newl, "models", []))), family="modellist")
                    else:
                        for j, (s, dta) in enumerate(zip(ln.subs, data)):
                            fm = newl.models[j]
                            new_subs.append(Node(fm, dta[3], dta[4], dta[5], s.depth + 1, s))
                            if newl.likelihood.likelihoods[j] is not fm.likelihood:
                                out.violate("fantasy_list_structure", i, "likelihood %d of the fantasy list is not the fantasy sub-model's likelihood" % j, family="modellist")
                            if fm.likelihood is s.model.likelihood:
                                out.violate("fantasy_shares_state", i, "fantasy sub-model %d reuses the source's likelihood object" % j, family="modellist", what="likelihood")
                        nodes.append(LNode(newl, new_subs, ln.depth + 1))
                        created = True
                        out.stats["probe:fantasy_list_created"] += 1
                    tag = "fantasize[d%d]" % min(ln.depth, 2)
            else:
                raise core.HarnessError(kind)
            out.transitions.add("modellist|d%d->%s" % (min(ln.depth, 2), tag))
            sketch.append(tag)
        out.nontrivial = (created and predicted) or partial
        out.sketch = "modellist:%s:%s" % ("+".join(r["lik"] for r in recipes), ">".join(sketch))
    finally:
        cm.__exit__(None, None, None)
        FAULTS.disarm()
        m_c20.reset_globals()
    return out


def render(history):
    lines = ["# C04 (model list) history; sub-model recipes:"] + ["#   " + json.dumps(r, sort_keys=True) for r in history["recipes"]]
    lines.append("nodes = [IndependentModelList(*[build(r).eval() for r in recipes])]")
    for i, op in enumerate(history["ops"]):
        o = dict(op)
        k = o.pop("op")
        b = o.pop("bundle", None)
        s = "%2d: %s(%s)" % (i, k, ", ".join("%s=%r" % kv for kv in sorted(o.items())))
        if b is not None:
            s += "  under " + bundles.fmt(b)
        lines.append(s)
    return "\n".join(lines)


def simplify(history):
    for i, op in enumerate(history["ops"]):
        b = op.get("bundle")
        if b:
            for j in range(len(b)):
                h = copy.deepcopy(history)
                h["ops"][i]["bundle"] = b[:j] + b[j + 1 :]
                yield h


def budget(tier):
    if tier == "quick":
        return {"runs": 500, "wall": 120, "digest_sample": 8}
    return {"runs": 20000, "wall": 1200, "digest_sample": 32}
