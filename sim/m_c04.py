"""C04 - fantasy models equal conditioning from scratch and leave the source untouched.
A tree of models (root, fantasies, fantasies of fantasies) is driven by a seeded history of
predictions, fantasy creations (several batch patterns, settings bundles) and failing creations.
DESIGN.md section 4.2."""
from __future__ import annotations

import copy
import json
import warnings

import gpytorch
import torch

from . import bundles, compare, core, zoo
from .zoo import FAULTS, SimFault

PROPERTY = "C04"
NAME = "c04"
RULE = (
    "a case is one history over a tree of models: root recipe + sequence of predict(node, settings), "
    "fantasize(node, pattern, settings) and failing fantasize operations; non-trivial = at least one fantasy model was "
    "created and then predicted from (compared with an exact GP built from scratch on the concatenated data) or a "
    "creation failed and the source was re-checked; distinct = distinct canonical sequence of (op kind, pattern, "
    "failure kind, settings class, node depth) per model family, counted with a hash set"
)
STUBBED = ["user-owned mean / kernel / model.forward with a SimFault fault point on the k-th call"]
ASSUMPTIONS = [
    "reference = the same gpytorch code building an ExactGP from scratch on the independently concatenated data with the root's state_dict",
    "tolerance 1e-6*max(1,|ref|) (Schur-complement update vs. refactorisation), 1e-4 for KISS-GP/WISKI whose update is approximate by construction "
    "(low-rank + Lanczos/CG caches)",
    "a creation that raises returns no model; then only the source-untouched oracle applies (accepted/rejected counts per pattern are reported)",
]
EXPECTED_PROBES = {
    "quick": ["fantasy_created", "fantasy_of_fantasy", "failed_creation_source_checked", "carried_caches_compared", "fantasy_predicted"],
    "thorough": ["fantasy_created", "fantasy_of_fantasy", "failed_creation_source_checked", "carried_caches_compared", "fantasy_predicted"],
}
# SGPR is not in this zoo: SGPRPredictionStrategy.get_fantasy_strategy raises NotImplementedError (unsupported), and the
# accidental route (source strategy created under lazily_evaluate_kernels(False), hence a DefaultPredictionStrategy) is
# inexact on the unchanged tree (fantasy covariance off by up to 2e-3 from scratch), so it cannot be judged soundly.
FAMILIES = ["default", "default", "default", "default", "kissgp", "multitask", "hadamard", "hadamard"]
PATTERNS = ["same", "same", "fbatch_per", "fbatch_shared", "fbatch_expanded"]


def generate(rng, tier, index):
    thorough = tier == "thorough"
    recipe = zoo.gen_exact_recipe(rng, FAMILIES)
    if recipe["family"] == "kissgp":
        recipe["grid_bounds"] = [[-0.3, 1.3]] * recipe["d"]  # dynamic grids are known finding F11 (C03)
    recipe.pop("active_dims", None) if rng.random() < 0.5 else None
    lanczos = recipe["family"] == "default" and not recipe.get("batch") and rng.random() < 0.3
    if lanczos:
        # iterative regime: train covariance larger than max_cholesky_size, so the carried roots are Lanczos factors
        recipe["n"] = rng.randint(10, 14)
        recipe["lik"] = rng.choice(["gaussian", "fixed"])
        # rough kernels keep the train covariance numerically full rank, so Lanczos runs all N iterations (square roots)
        recipe["kernel"] = rng.choice(["matern05", "matern05", "matern15"])  # (a smooth kernel is numerically low rank: truncated root)
    faulty = index % 3 == 2
    allow = {"fast_pred_var", "detach_test_caches", "max_eager_kernel_size", "lazily_evaluate_kernels"}
    if recipe["family"] == "kissgp":
        allow = allow | {"fast_pred_samples"}  # the WISKI caches come in two flavours (root for samples / root for variances)
    if recipe["family"] == "sgpr":
        # an SGPR model can be fantasised when its strategy was created under lazily_evaluate_kernels(False)
        allow = {"fast_pred_var", "lazily_evaluate_kernels", "sgpr_diagonal_correction"}
    elif rng.random() < 0.4:
        allow = set(rng.sample(sorted(allow), rng.randint(0, 2)))
    p_each = rng.choice([0.3, 0.6, 0.9])
    max_len = rng.randint(3, 9) if not thorough else rng.randint(4, 24)
    ops = []

    def gen_pred(node=None):
        t = rng.randint(1, 3)
        return {
            "op": "predict",
            "node": rng.randrange(8) if node is None else node,
            "seed": rng.randrange(1 << 30),
            "t": t,
            "bundle": bundles.gen_bundle(rng, recipe["n"] + 3 + t, allow=allow, p_each=p_each),
            "lik": rng.random() < 0.2,
            "batched_x": rng.random() < 0.5,
            "grad": rng.random() < 0.15,
        }

    xseeds = []

    def gen_fant(node=None):
        sd = rng.randrange(1 << 30)
        # sibling fantasies at the SAME locations (other targets / other task indices) are a common use (sampled targets)
        xs_ = rng.choice(xseeds) if (xseeds and rng.random() < 0.3) else sd
        xseeds.append(xs_)
        return {
            "op": "fantasize",
            "node": rng.randrange(8) if node is None else node,
            "seed": sd,
            "xseed": xs_,
            "m": rng.randint(1, 3),
            "pattern": rng.choice(PATTERNS),
            "f": rng.randint(2, 3),
            "bundle": bundles.gen_bundle(rng, recipe["n"] + 3, allow=allow, p_each=p_each),
            "no_grad": rng.random() < (0.8 if recipe["family"] == "kissgp" else 0.2),
            "moved": rng.random() < 0.4,
            # a per-observation `noise=` passed although the likelihood is homoskedastic (what BoTorch's fantasize(observation_noise=...)
            # does): the documented model is still "an exact GP with the same hyperparameters on the concatenated data"
            "stray_noise": rng.random() < 0.12,
        }

    def gen_bad(node=None):
        return {
            "op": "bad_fantasize",
            "node": rng.randrange(8) if node is None else node,
            "kind": rng.choice(["unbroadcastable", "missing_noise", "fault_kernel", "fault_mean", "fault_forward", "dim_mismatch"]),
            "seed": rng.randrange(1 << 30),
            "k": rng.randint(1, 5),
            "m": rng.randint(1, 2),
        }

    ops.append(gen_pred(0))
    if recipe["family"] == "sgpr":
        ops[0]["bundle"] = [["lazily_evaluate_kernels", {"state": False}]] + [b for b in ops[0]["bundle"] if b[0] != "lazily_evaluate_kernels"]
    ops.append(gen_fant(0))
    ops.append(gen_pred(1))
    while len(ops) < max_len:
        kinds = [("predict", 4.0), ("fantasize", 3.0), ("drop", 0.4), ("retrain", 0.8)]
        if faulty:
            kinds.append(("bad_fantasize", 2.0))
        k = core.weighted_choice(rng, kinds)
        if k == "predict":
            ops.append(gen_pred())
        elif k == "fantasize":
            ops.append(gen_fant())
        elif k == "drop":
            ops.append({"op": "drop", "node": rng.randrange(8)})
        elif k == "retrain":
            # the hyper-parameters of ONE model of the tree move (in training mode); its fantasies keep theirs
            ops.append({"op": "retrain", "node": rng.randrange(8), "seed": rng.randrange(1 << 30)})
        else:
            ops.append(gen_bad())
    if index % 7 == 3:
        # stratified: the source keeps training after a fantasy was created and before the fantasy's first prediction
        ops[1:1] = [gen_fant(0), {"op": "retrain", "node": 0, "seed": rng.randrange(1 << 30)}, gen_pred(1)]
    ops.append(gen_pred())
    core.sticky_bundles(rng, ops)
    if lanczos:
        # make sure the carried Lanczos roots are exercised: a fantasy of a fantasy predicted under fast_pred_var
        f1, f2 = gen_fant(0), gen_fant(1)
        p2 = gen_pred(2)
        p2["bundle"] = [b for b in p2["bundle"] if b[0] != "fast_pred_var"] + [["fast_pred_var", {"state": True}]]
        ops[1:1] = [f1, f2, p2]
        extra = [["max_cholesky_size", {"value": 5}], ["cg_tolerance", {"value": 1e-10}], ["eval_cg_tolerance", {"value": 1e-10}], ["max_cg_iterations", {"value": 2000}], ["max_root_decomposition_size", {"value": 200}], ["max_lanczos_quadrature_iterations", {"value": 200}]]
        for o in ops:
            if "bundle" in o:
                o["bundle"] = [b for b in o["bundle"] if b[0] not in ("max_cholesky_size", "fast_computations")] + extra
            if o["op"] == "fantasize":
                o["pattern"] = "same"
    return {"recipe": recipe, "ops": ops, "header": {"faulty": faulty, "lanczos": lanczos}}


# ----------------------------------------------------------------------------- execution


class Node:
    def __init__(self, model, inputs, targets, noise, depth, parent):
        self.model = model
        self.inputs = inputs  # tuple of tensors, independently accumulated by the harness
        self.targets = targets
        self.noise = noise
        self.depth = depth
        self.parent = parent
        self.alive = True
        self.iter = False
        self.stray_noise = False  # created with a `noise=` kwarg although the likelihood is homoskedastic (or descends from such a model)
        self.sd = None  # the hyper-parameters this model was created with / last retrained to (tracked by the harness)

    @property
    def batch(self):
        return list(self.inputs[0].shape[:-2])


def tolerance(recipe):
    if recipe["family"] == "kissgp":
        return 1e-4
    if recipe["family"] == "sgpr":
        return 1e-5  # low-rank train covariance (Woodbury, jitter on K_uu): bordered update vs refactorisation differ by ~1e-6
    return 1e-6


def scratch_model(recipe, root_sd, node):
    data = {"inputs": node.inputs, "targets": node.targets, "fixed_noise": node.noise}
    R = zoo.build_exact(recipe, data=data)
    R.load_state_dict(root_sd)
    R.eval()
    R.likelihood.eval()
    return R


def test_args(recipe, op, node):
    d = recipe["d"]
    batch = node.batch if op.get("batched_x") else list(recipe.get("batch", []))
    xs = zoo.rand(op["seed"], *batch, op["t"], d) * 1.1 - 0.05
    if recipe["family"] == "hadamard":
        idx = torch.randint(0, recipe["tasks"], (*batch, op["t"], 1), generator=zoo.gen(op["seed"] + 9))
        return (xs, idx)
    return (xs,)


def predict(model, args, op, grad=False):
    torch.manual_seed(op["seed"])
    try:
        with bundles.entered(op.get("bundle", [])):
            if grad:
                dist = model(*args)
            else:
                with torch.no_grad():
                    dist = model(*args)
            if op.get("lik"):
                dist = model.likelihood(dist)
            return ("ok", compare.observe_dist(dist))
    except SimFault:
        raise
    except Exception as e:  # noqa
        return ("exc", type(e).__name__, str(e)[:200])


def snapshot_source(model):
    """Everything C04 says must be left untouched by get_fantasy_model."""
    snap = {
        "sd": {k: v.detach().clone() for k, v in model.state_dict().items()},
        "inputs_id": None if model.train_inputs is None else tuple(id(t) for t in model.train_inputs),
        "inputs": None if model.train_inputs is None else tuple(t.detach().clone() for t in model.train_inputs),
        "targets_id": id(model.train_targets),
        "targets": None if model.train_targets is None else model.train_targets.detach().clone(),
        "lik_id": id(model.likelihood),
        "strategy_id": id(model.prediction_strategy),
        "training": model.training,
        "lik_training": model.likelihood.training if model.likelihood is not None else None,
        "noise_covar_id": id(getattr(model.likelihood, "noise_covar", None)),
        "fixed": None,
        "submodule_modes": tuple((n, m.training) for n, m in sorted(model.named_modules(), key=lambda kv: kv[0]) if isinstance(m, gpytorch.Module)),
        "cache": {},
    }
    lik = model.likelihood
    if isinstance(lik, gpytorch.likelihoods.FixedNoiseGaussianLikelihood) and lik.noise_covar is not None:
        snap["fixed"] = lik.noise_covar.noise.detach().clone()
    strat = model.prediction_strategy
    cache = getattr(strat, "_memoize_cache", None)
    if isinstance(cache, dict):
        for k, v in cache.items():
            name = k[0] if isinstance(k, tuple) else k
            key = repr((name, k[1] if isinstance(k, tuple) and len(k) > 1 else None))
            if torch.is_tensor(v):
                snap["cache"][key] = v.detach().clone()
    return snap


def diff_source(before, model):
    """Return list of (what, detail) differences between the snapshot and the model now."""
    out = []
    if model.likelihood is None:
        return [("likelihood", "source.likelihood is None after the call")]
    if model.train_inputs is None or model.train_targets is None:
        return [("train_data", "source training data is None after the call")]
    after = snapshot_source(model)
    for k in ("inputs_id", "targets_id", "lik_id", "strategy_id", "training", "lik_training", "noise_covar_id", "submodule_modes"):
        if before[k] != after[k]:
            out.append((k, "%s changed" % k))
    if sorted(before["sd"]) != sorted(after["sd"]):
        out.append(("state_dict_keys", "keys changed: %s" % sorted(set(before["sd"]) ^ set(after["sd"]))))
    else:
        for k in sorted(before["sd"]):
            if before["sd"][k].shape != after["sd"][k].shape or not torch.equal(before["sd"][k], after["sd"][k]):
                out.append(("parameter", "state_dict[%s] changed" % k))
                break
    if before["inputs"] is not None and after["inputs"] is not None:
        for a, b in zip(before["inputs"], after["inputs"]):
            if a.shape != b.shape or not torch.equal(a, b):
                out.append(("train_inputs", "train_inputs values changed"))
    if before["targets"] is not None and (after["targets"] is None or before["targets"].shape != after["targets"].shape or not torch.equal(before["targets"], after["targets"])):
        out.append(("train_targets", "train_targets values changed"))
    if (before["fixed"] is None) != (after["fixed"] is None) or (
        before["fixed"] is not None and (before["fixed"].shape != after["fixed"].shape or not torch.equal(before["fixed"], after["fixed"]))
    ):
        out.append(("fixed_noise", "fixed noise of the source likelihood changed"))
    for k, v in before["cache"].items():
        w = after["cache"].get(k)
        if w is None:
            out.append(("cache_entry_dropped", "strategy cache entry %s disappeared" % k))
        elif v.shape != w.shape or not torch.equal(v, w):
            out.append(("cache_entry_changed", "strategy cache entry %s changed" % k))
    return out


def fantasy_data(recipe, node, op, xcache=None):
    """Materialise fantasy inputs/targets/noise and the independently concatenated full data."""
    fam = recipe["family"]
    d = recipe["d"]
    nb = node.batch
    m = op["m"]
    pat = op["pattern"]
    f = op["f"]
    tasks = recipe.get("tasks") if fam == "multitask" else None
    if pat == "same":
        in_b, tg_b = nb, nb
    elif pat in ("fbatch_per", "fbatch_expanded"):
        in_b, tg_b = [f] + nb, [f] + nb
    else:  # fbatch_shared: inputs without the fantasy batch, targets with it
        in_b, tg_b = nb, [f] + nb
    if pat == "fbatch_expanded":
        # the same locations for every fantasy, passed WITH the fantasy dimension as an expanded (stride-0) view -
        # X.expand(f, m, d) - while targets (and task indices) differ per fantasy
        xf = zoo.rand(op.get("xseed", op["seed"]), *nb, m, d).expand(*in_b, m, d)
    else:
        xf = zoo.rand(op.get("xseed", op["seed"]), *in_b, m, d)
        if xcache is not None and op.get("xseed", op["seed"]) != op["seed"]:
            # sibling fantasies: the caller passes the very tensor OBJECT of the earlier creation again (a candidate set
            # kept in a variable) - optionally after updating it in place (an optimiser step on the candidates)
            key = (op["xseed"], tuple(in_b), m)
            if key in xcache:
                xf = xcache[key]
                if op.get("moved"):
                    with torch.no_grad():
                        xf.copy_(zoo.rand(op["seed"] + 13, *in_b, m, d))
            xcache[key] = xf
        elif xcache is not None:
            xcache[(op["seed"], tuple(in_b), m)] = xf
    # targets: a smooth function + per-fantasy noise
    base_x = xf if len(in_b) == len(tg_b) else xf.expand(*tg_b, m, d)
    yf = zoo.make_targets(op["seed"] + 1, base_x, tasks=tasks)
    if pat in ("fbatch_shared", "fbatch_expanded"):
        yf = yf + 0.5 * zoo.randn(op["seed"] + 4, *yf.shape)
    inputs_f = [xf]
    if fam == "hadamard":
        inputs_f.append(torch.randint(0, recipe["tasks"], (*in_b, m, 1), generator=zoo.gen(op["seed"] + 5)))
    noise_f = None
    if recipe["lik"].startswith("fixed"):
        noise_f = 0.05 + 0.2 * zoo.rand(op["seed"] + 2, *tg_b, m)
    # ---- independent concatenation (reference semantics of the docstring)
    full_b = tg_b
    full_inputs = tuple(
        torch.cat([ti.expand(*full_b, *ti.shape[-2:]), fi.expand(*full_b, *fi.shape[-2:])], dim=-2)
        for ti, fi in zip(node.inputs, inputs_f)
    )
    if tasks:
        full_targets = torch.cat([node.targets.expand(*full_b, *node.targets.shape[-2:]), yf], dim=-2)
    else:
        full_targets = torch.cat([node.targets.expand(*full_b, node.targets.shape[-1]), yf], dim=-1)
    full_noise = None
    if noise_f is not None:
        full_noise = torch.cat([node.noise.expand(*full_b, node.noise.shape[-1]), noise_f], dim=-1)
    return inputs_f, yf, noise_f, full_inputs, full_targets, full_noise


def execute(history):
    out = core.Outcome()
    from . import m_c20

    m_c20._capture_pristine()
    m_c20.reset_globals()
    FAULTS.disarm()
    cm = warnings.catch_warnings()
    cm.__enter__()
    warnings.simplefilter("ignore")
    try:
        recipe = history["recipe"]
        fam = recipe["family"]
        tol = tolerance(recipe)
        if history.get("header", {}).get("lanczos"):
            tol = 1e-3  # CG / Lanczos caches carry solver error (observed <= 2e-6 on the unchanged tree)
            out.stats["probe:lanczos_regime"] += 1
        torch.manual_seed(recipe["init_seed"])
        root = zoo.build_exact(recipe)
        zoo.randomise_parameters(root, recipe["init_seed"])
        root.eval()
        root.likelihood.eval()
        root_sd = {k: v.detach().clone() for k, v in root.state_dict().items()}
        fixed = root.likelihood.noise_covar.noise.detach().clone() if recipe["lik"].startswith("fixed") else None
        nodes = [Node(root, tuple(t.detach().clone() for t in root.train_inputs), root.train_targets.detach().clone(), fixed, 0, None)]
        nodes[0].sd = root_sd
        sketch = []
        xcache = {}
        created = predicted_fantasy = False

        def pick(op):
            alive = [n for n in nodes if n.alive]
            return alive[op["node"] % len(alive)]

        for i, op in enumerate(history["ops"]):
            out.steps += 1
            k = op["op"]
            out.stats["op:" + k] += 1
            node = pick(op)
            M = node.model
            tag = k
            if k == "predict":
                args = test_args(recipe, op, node)
                rm = predict(M, args, op, grad=op.get("grad", False))
                R = scratch_model(recipe, node.sd, node)
                rr = predict(R, args, op)
                out.stats["oracle_comparisons"] += 1
                cls = {"family": fam, "depth": min(node.depth, 2), "lik": recipe["lik"], "quantity": None, "stray_noise": bool(node.stray_noise)}
                if rm[0] == "ok":
                    for q in sorted(rm[1]):
                        out.log.add("obs%d:%s" % (i, q), rm[1][q])
                if rm[0] == "ok" and rr[0] == "ok":
                    bad, mx = compare.compare_obs(rm[1], rr[1], tol)
                    if bad and history.get("header", {}).get("lanczos"):
                        # Lanczos regime: a carried root and the from-scratch model's own root are two approximations of one
                        # inverse (a Krylov space built from one random probe vector need not exhaust a small, clustered data
                        # set): covariances are compared at 5e-2, the mean (an exact CG solve on both sides) at 1e-3
                        bad = [(q, dd, sc) for q, dd, sc in bad if q.startswith("mean") or not dd <= 5e-2 * sc]
                    if not bad:
                        out.note_diff("tol=%g" % tol, mx)
                    else:
                        q, diff, scale = bad[0]
                        cls["quantity"] = q.split("_")[0]
                        out.violate(
                            "fantasy_vs_scratch" if node.depth > 0 else "source_prediction_changed",
                            i,
                            "%s of %s differs from an exact GP built from scratch on the %s data by %.3g (scale %.3g, tol %.1g) under %s"
                            % (q, "fantasy model (depth %d)" % node.depth if node.depth else "the source model", "concatenated" if node.depth else "same", diff, scale, tol, bundles.fmt(op.get("bundle", []))),
                            **cls,
                        )
                elif rm[0] == "exc" and rr[0] == "ok" and rm[1] == "NotImplementedError":
                    # an explicitly unsupported combination (e.g. a WISKI fantasy under fast_pred_samples without fast_pred_var)
                    out.stats["rejected:predict_not_implemented_d%d" % min(node.depth, 2)] += 1
                elif rm[0] == "exc" and rr[0] == "ok":
                    out.violate(
                        "fantasy_raises" if node.depth > 0 else "source_raises",
                        i,
                        "model at depth %d raised %s(%s) but the from-scratch model predicts fine under %s" % (node.depth, rm[1], rm[2], bundles.fmt(op.get("bundle", []))),
                        exc=rm[1],
                        **cls,
                    )
                elif rm[0] == "ok" and rr[0] == "exc":
                    out.stats["probe:scratch_rejects_" + rr[1]] += 1
                else:
                    out.stats["rejected:predict_both_raise_" + rm[1]] += 1
                if node.depth > 0:
                    predicted_fantasy = True
                    out.stats["probe:fantasy_predicted"] += 1
                tag = "predict[d%d,%s]" % (min(node.depth, 2), "fpv" if bundles.has(op.get("bundle", []), "fast_pred_var", state=True) else "std")
            elif k == "retrain" and (M.likelihood is None or M.train_inputs is None):
                # the node was left torn by a failed creation (already reported as source_touched): nothing to retrain
                out.stats["skipped:retrain_of_torn_node"] += 1
                tag = "skipped"
            elif k == "retrain":
                M.train()
                M.likelihood.train()
                zoo.randomise_parameters(M, op["seed"], scale=0.5)
                M.eval()
                M.likelihood.eval()
                node.sd = {kk: v.detach().clone() for kk, v in M.state_dict().items()}
                out.stats["probe:node_retrained_d%d" % min(node.depth, 2)] += 1
                if any(n.alive and n.parent is node for n in nodes):
                    out.stats["fault:source_retrained_while_fantasies_alive"] += 1
                tag = "retrain[d%d]" % min(node.depth, 2)
            elif k == "drop":
                if node.depth > 0:
                    node.alive = False
                    node.model = None
                else:
                    tag = "skipped"
            elif k in ("fantasize", "bad_fantasize"):
                if M.prediction_strategy is None:
                    out.stats["skipped:no_strategy_yet"] += 1
                    sketch.append("skipped")
                    continue
                if node.depth >= 3:
                    out.stats["skipped:depth"] += 1
                    sketch.append("skipped")
                    continue
                before = snapshot_source(M)
                new_node = None
                failed = None
                try:
                    if k == "fantasize":
                        tag = "fantasize[%s,d%d]" % (op["pattern"], min(node.depth, 2))
                        inputs_f, yf, noise_f, full_in, full_tg, full_noise = fantasy_data(recipe, node, op, xcache)
                        kw = {} if noise_f is None else {"noise": noise_f}
                        if noise_f is None and op.get("stray_noise") and recipe["lik"] == "gaussian" and fam == "default":
                            kw = {"noise": 0.05 + 0.5 * zoo.rand(op["seed"] + 2, *yf.shape)}
                            out.stats["probe:noise_kwarg_on_homoskedastic_model"] += 1
                        arg_in = inputs_f if len(inputs_f) > 1 else inputs_f[0]
                        with bundles.entered(op.get("bundle", [])):
                            if op.get("no_grad"):
                                with torch.no_grad():
                                    fm = M.get_fantasy_model(arg_in, yf, **kw)
                            else:
                                fm = M.get_fantasy_model(arg_in, yf, **kw)
                        new_node = Node(fm, full_in, full_tg, full_noise, node.depth + 1, node)
                        new_node.stray_noise = bool(kw) and noise_f is None
                        tag = "fantasize[%s,d%d]" % (op["pattern"], min(node.depth, 2))
                    else:
                        kind = op["kind"]
                        tag = "bad_fantasize[%s]" % kind
                        fop = dict(op, pattern="same", f=2)
                        inputs_f, yf, noise_f, full_in, full_tg, full_noise = fantasy_data(recipe, node, fop)
                        kw = {} if noise_f is None else {"noise": noise_f}
                        arg_in = inputs_f if len(inputs_f) > 1 else inputs_f[0]
                        if kind == "unbroadcastable":
                            yf = zoo.randn(op["seed"], 5, 7, *yf.shape)
                        elif kind == "dim_mismatch":
                            yf = yf.unsqueeze(0).unsqueeze(0).unsqueeze(0)
                        elif kind == "missing_noise":
                            if noise_f is None:
                                out.stats["skipped:missing_noise_not_fixed"] += 1
                                sketch.append("skipped")
                                continue
                            kw = {}
                        else:
                            FAULTS.arm({"fault_kernel": "kernel", "fault_mean": "mean", "fault_forward": "forward"}[kind], op["k"])
                        fm = M.get_fantasy_model(arg_in, yf, **kw)
                        if kind in ("unbroadcastable", "dim_mismatch", "missing_noise"):
                            out.stats["probe:bad_fantasize_accepted_" + kind] += 1
                        else:
                            new_node = Node(fm, full_in, full_tg, full_noise, node.depth + 1, node)
                except SimFault:
                    failed = "SimFault"
                    out.stats["fault:failed_creation_user_module"] += 1
                except Exception as e:  # noqa  creation failed: nothing was returned
                    failed = type(e).__name__
                    out.stats["rejected:%s:%s%s:%s_%s%s" % (fam, recipe["lik"], ":batch" if recipe.get("batch") else "", tag, failed, ("_m%d" % op["m"]) if fam == "multitask" else "")] += 1
                    if k == "bad_fantasize":
                        out.stats["fault:failed_creation_" + op["kind"]] += 1
                finally:
                    FAULTS.disarm()
                # ---- oracle 3: the source is untouched, whether the creation succeeded or failed
                diffs = diff_source(before, M)
                out.stats["oracle_comparisons"] += 1
                if failed:
                    out.stats["probe:failed_creation_source_checked"] += 1
                for what, detail in diffs[:2]:
                    out.violate(
                        "source_touched",
                        i,
                        "get_fantasy_model (%s) on the model at depth %d: %s" % ("failed with " + failed if failed else "succeeded", node.depth, detail),
                        family=fam,
                        what=what,
                        failed=bool(failed),
                    )
                if new_node is not None:
                    new_node.stray_noise = new_node.stray_noise or node.stray_noise
                    new_node.sd = node.sd  # "the same hyperparameters": those of the source at the creation
                    nodes.append(new_node)
                    created = True
                    out.stats["probe:fantasy_created"] += 1
                    out.stats["probe:fantasy_created[%s]" % op.get("pattern", "same")] += 1
                    out.stats["probe:fantasy_created:%s:%s%s" % (fam, recipe["lik"], ":batch" if recipe.get("batch") else "")] += 1
                    if new_node.depth >= 2:
                        out.stats["probe:fantasy_of_fantasy"] += 1
                    check_fantasy_object(out, i, recipe, new_node.sd, new_node, op, tol, lanczos=bool(history.get("header", {}).get("lanczos")))
            else:
                raise core.HarnessError("unknown op " + k)
            out.transitions.add("%s|d%d->%s" % (fam, min(node.depth, 2), tag))
            sketch.append(tag)
        out.nontrivial = (created and predicted_fantasy) or out.stats.get("probe:failed_creation_source_checked", 0) > 0
        out.sketch = fam + ":" + recipe["lik"] + ":" + ">".join(sketch)
    finally:
        cm.__exit__(None, None, None)
        FAULTS.disarm()
        m_c20.reset_globals()
    return out


def check_fantasy_object(out, i, recipe, root_sd, node, op, tol, lanczos=False):
    """Checks on the object just returned: its data equal the documented concatenation, it shares nothing mutable
    with its source, and the caches it carries equal the same quantities recomputed from the full data."""
    fam = recipe["family"]
    fm = node.model
    src = node.parent.model
    cls = {"family": fam, "lik": recipe["lik"], "pattern": op.get("pattern", "same"), "stray_noise": bool(getattr(node, "stray_noise", False))}
    # data
    try:
        ok = len(fm.train_inputs) == len(node.inputs) and all(
            a.shape == b.shape and torch.equal(a, b) for a, b in zip(fm.train_inputs, node.inputs)
        )
        ok_t = fm.train_targets.shape == node.targets.shape and torch.equal(fm.train_targets, node.targets)
    except Exception:  # noqa
        ok = ok_t = False
    if not ok:
        out.violate("fantasy_data", i, "train_inputs of the fantasy model are not [train; fantasy] inputs (shapes %s vs %s)" % ([tuple(t.shape) for t in fm.train_inputs], [tuple(t.shape) for t in node.inputs]), what="inputs", **cls)
    if not ok_t:
        out.violate("fantasy_data", i, "train_targets of the fantasy model are not [train; fantasy] targets (shape %s vs %s)" % (tuple(fm.train_targets.shape), tuple(node.targets.shape)), what="targets", **cls)
    # no shared mutable modules with the source
    if fm.likelihood is src.likelihood:
        out.violate("fantasy_shares_state", i, "fantasy model reuses the source model's likelihood object", what="likelihood", **cls)
    src_params = {id(p) for p in src.parameters()}
    shared = [n for n, p in fm.named_parameters() if id(p) in src_params]
    if shared:
        out.violate("fantasy_shares_state", i, "fantasy model shares parameter objects with its source: %s" % shared[:3], what="parameters", **cls)
    # carried caches vs recomputation (oracle 2)
    strat = fm.prediction_strategy
    if strat is None or fam in ("kissgp", "sgpr"):
        return  # their covar_cache has a kernel-specific meaning in the from-scratch model
    try:
        R = scratch_model(recipe, root_sd, node)
        xs = test_args(recipe, {"seed": op["seed"] + 17, "t": 2, "batched_x": True}, node)
        with torch.no_grad(), gpytorch.settings.fast_pred_var(True):
            R(*xs).variance
        rs = R.prediction_strategy
        mc_f, mc_r = strat.mean_cache, rs.mean_cache
        cc_f, cc_r = strat.covar_cache, rs.covar_cache
    except Exception as e:  # noqa
        out.stats["probe:carried_cache_unavailable_" + type(e).__name__] += 1
        return
    out.stats["probe:carried_caches_compared"] += 1
    out.stats["oracle_comparisons"] += 1
    obs_f = {"mean_cache": mc_f.detach().reshape(mc_r.shape) if mc_f.numel() == mc_r.numel() else mc_f.detach()}
    obs_r = {"mean_cache": mc_r.detach()}
    if torch.is_tensor(cc_f) and torch.is_tensor(cc_r) and not lanczos:  # a Lanczos inverse root is low rank: R R^T is not the inverse
        pf = cc_f.detach() @ cc_f.detach().transpose(-1, -2)
        pr = cc_r.detach() @ cc_r.detach().transpose(-1, -2)
        if pf.shape != pr.shape:
            try:
                pf = pf.expand(pr.shape)
            except RuntimeError:
                pass
        obs_f["inv_from_covar_cache"] = pf
        obs_r["inv_from_covar_cache"] = pr
    bad, mx = compare.compare_obs(obs_f, obs_r, tol * 10)  # an explicit inverse amplifies rounding by the conditioning
    # psd_safe_cholesky may add jitter (up to 1e-6 in float64) on one of the two routes: (A + jI)^-1 - A^-1 ~ j |A^-1|^2
    bad = [(q, diff, scale) for q, diff, scale in bad if not (q == "inv_from_covar_cache" and diff <= tol * 10 * scale + 1e-6 * scale * scale)]
    if bad:
        q, diff, scale = bad[0]
        out.violate(
            "carried_cache",
            i,
            "%s carried by the fantasy strategy differs from the same quantity recomputed from the full data by %.3g (scale %.3g)" % (q, diff, scale),
            quantity=q,
            **cls,
        )
    else:
        out.note_diff("carried_cache tol=%g" % (tol * 10), mx)


# ----------------------------------------------------------------------------- render / simplify / budget


def render(history):
    r = history["recipe"]
    lines = ["# C04 history; recipe = " + json.dumps(r, sort_keys=True), "nodes = [root = build(recipe).eval()]"]
    for i, op in enumerate(history["ops"]):
        o = dict(op)
        k = o.pop("op")
        b = o.pop("bundle", None)
        s = "%2d: %s(%s)" % (i, k, ", ".join("%s=%r" % kv for kv in sorted(o.items())))
        if b is not None:
            s += "  under " + bundles.fmt(b)
        lines.append(s)
    lines.append("# node index is taken modulo the number of live nodes; predict compares with an ExactGP built from scratch on the node's accumulated data")
    return "\n".join(lines)


def simplify(history):
    for i, op in enumerate(history["ops"]):
        b = op.get("bundle")
        if b:
            for j in range(len(b)):
                h = copy.deepcopy(history)
                h["ops"][i]["bundle"] = b[:j] + b[j + 1 :]
                yield h
        for key, val in (("lik", False), ("t", 1), ("m", 1), ("pattern", "same"), ("batched_x", False), ("grad", False), ("no_grad", False)):
            if key in op and op[key] != val:
                h = copy.deepcopy(history)
                h["ops"][i][key] = val
                yield h
    r = history["recipe"]
    for key, val in (("batch", []), ("ard", False), ("mean", "zero"), ("active_dims", None), ("d", 1), ("kernel", "rbf"), ("lik", "gaussian")):
        if key in r and r[key] != val and not (key == "d" and r.get("active_dims")):
            h = copy.deepcopy(history)
            if val is None:
                del h["recipe"][key]
            else:
                h["recipe"][key] = val
            yield h


def budget(tier):
    if tier == "quick":
        return {"runs": 1600, "wall": 240, "digest_sample": 16}
    return {"runs": 60000, "wall": 2400, "digest_sample": 64}
