"""Model zoo: recipes are plain dicts, so a fresh instance can always be built.
All user-owned modules (model.forward, mean, base kernels) pass through the FAULTS seam,
which is where the simulator injects a failing dependency (SimFault) on the k-th call.
"""
from __future__ import annotations

import math
import sys

import gpytorch
import torch
from gpytorch import kernels as K
from gpytorch import likelihoods as L
from gpytorch import means as M
from gpytorch import constraints as CN
from gpytorch import priors as PR
from gpytorch.distributions import MultitaskMultivariateNormal, MultivariateNormal

DT = torch.float64


class SimFault(RuntimeError):
    """A failing user-owned dependency (the place a real CPU/CUDA OOM surfaces)."""


class _Faults:
    def __init__(self):
        self.site = None
        self.k = 0
        self.calls = 0
        self.fired = False
        self.counts = {}

    def arm(self, site, k):
        self.site, self.k, self.calls, self.fired = site, k, 0, False

    def disarm(self):
        self.site, self.k = None, 0

    def hit(self, site):
        self.counts[site] = self.counts.get(site, 0) + 1
        if self.site == site:
            self.calls += 1
            if self.calls == self.k:
                self.fired = True
                self.site = None
                raise SimFault("injected fault: %s call #%d" % (site, self.k))


FAULTS = _Faults()

# ------------------------------------------------------------------ user-owned module classes (picklable: module level)

_this = sys.modules[__name__]


def _sim_kernel(base):
    name = "Sim" + base.__name__

    def forward(self, x1, x2, diag=False, **params):
        FAULTS.hit("kernel")
        # a call-time keyword of the user's kernel (Kernel.__call__ forwards **params to forward and keeps them on the lazily
        # evaluated kernel tensor): rescales the inputs
        input_scale = params.pop("input_scale", None)
        if input_scale is not None:
            x1, x2 = x1 * input_scale, x2 * input_scale
        return base.forward(self, x1, x2, diag=diag, **params)

    cls = type(name, (base,), {"forward": forward, "__module__": __name__})
    setattr(_this, name, cls)
    return cls


SimRBFKernel = _sim_kernel(K.RBFKernel)
SimMaternKernel = _sim_kernel(K.MaternKernel)
SimRQKernel = _sim_kernel(K.RQKernel)
SimPeriodicKernel = _sim_kernel(K.PeriodicKernel)
SimLinearKernel = _sim_kernel(K.LinearKernel)
SimPolynomialKernel = _sim_kernel(K.PolynomialKernel)
SimCosineKernel = _sim_kernel(K.CosineKernel)


def _sim_mean(base):
    name = "Sim" + base.__name__

    def forward(self, x):
        FAULTS.hit("mean")
        return base.forward(self, x)

    cls = type(name, (base,), {"forward": forward, "__module__": __name__})
    setattr(_this, name, cls)
    return cls


SimConstantMean = _sim_mean(M.ConstantMean)
SimZeroMean = _sim_mean(M.ZeroMean)
SimLinearMean = _sim_mean(M.LinearMean)


# ------------------------------------------------------------------ data


def gen(seed):
    g = torch.Generator()
    g.manual_seed(int(seed) & 0x7FFFFFFFFFFFFFFF)
    return g


def rand(seed, *shape):
    return torch.rand(*shape, generator=gen(seed), dtype=DT)


def randn(seed, *shape):
    return torch.randn(*shape, generator=gen(seed), dtype=DT)


def make_inputs(seed, batch, n, d):
    return rand(seed, *batch, n, d)


def make_targets(seed, x, scale=1.0, tasks=None):
    """Smooth function of x plus noise; shape x.shape[:-1] (or (..., n, tasks))."""
    d = x.shape[-1]
    w = randn(seed + 1, d)
    base = torch.sin(3.0 * (x * w).sum(-1)) * scale
    if tasks is None:
        return base + 0.3 * scale * randn(seed + 2, *x.shape[:-1])
    cols = [base * (0.5 + i) + 0.3 * scale * randn(seed + 3 + i, *x.shape[:-1]) for i in range(tasks)]
    return torch.stack(cols, -1)


def grid_inputs(n_per_dim, d):
    pts = [torch.linspace(0, 1, n_per_dim, dtype=DT) for _ in range(d)]
    grid = torch.stack(pts, -1)  # n_per_dim x d  (GridKernel "grid" format)
    mesh = torch.cartesian_prod(*pts) if d > 1 else pts[0].unsqueeze(-1)
    return grid, mesh


# ------------------------------------------------------------------ exact GP model


class ZooExactGP(gpytorch.models.ExactGP):
    def __init__(self, train_x, train_y, likelihood, mean_module, covar_module, multitask=0):
        super().__init__(train_x, train_y, likelihood)
        self.mean_module = mean_module
        self.covar_module = covar_module
        self.multitask = multitask

    def forward(self, *xs):
        FAULTS.hit("forward")
        x = xs[0]
        if len(xs) == 2:  # Hadamard multitask: (x, task index)
            mean = self.mean_module(x)
            covar = self.covar_module(x).mul(self.task_covar_module(xs[1]))
            return MultivariateNormal(mean, covar)
        mean = self.mean_module(x)
        covar = self.covar_module(x, input_scale=self.call_scale) if getattr(self, "call_scale", None) else self.covar_module(x)
        if self.multitask:
            return MultitaskMultivariateNormal(mean, covar)
        return MultivariateNormal(mean, covar)


def prior_kwargs(recipe, variant=0):
    """Constructor kwargs for priors / constraints.  `variant` changes only *numbers* (prior parameters, bounds): those
    are buffers and must travel in a state_dict, so a restored model built with variant 1 must end up equal to the
    original built with variant 0 (C18)."""
    if recipe.get("priors") != "ctor":
        return {}, {}, {}
    a, b = 2.0 + variant, 3.0 + 2.0 * variant
    lik_kw = {"noise_prior": PR.GammaPrior(a, b), "noise_constraint": CN.GreaterThan(1e-4 if variant == 0 else 2e-3, initial_value=0.05 + 0.2 * variant)}
    ls_kw = {"lengthscale_prior": PR.GammaPrior(a + 1.0, b), "lengthscale_constraint": CN.GreaterThan(1e-3 * (1 + 4 * variant))}
    os_kw = {"outputscale_prior": PR.LogNormalPrior(0.3 * variant, 1.0), "outputscale_constraint": CN.Interval(1e-3, 50.0 + 25.0 * variant)}
    return lik_kw, ls_kw, os_kw


def named_priors(model, recipe, variant=0):
    """Priors registered through the name-based public API register_prior(name, prior, "<param>")."""
    if recipe.get("priors") != "named":
        return model
    a, b = 2.0 + variant, 3.0 + 2.0 * variant
    lik = model.likelihood
    nc = getattr(lik, "noise_covar", None)
    if nc is not None and hasattr(type(nc), "noise") and "raw_noise" in dict(nc.named_parameters(recurse=False)):
        nc.register_prior("noise_prior", PR.GammaPrior(a, b), "noise")
    cm = model.covar_module
    if isinstance(cm, K.ScaleKernel):
        cm.register_prior("outputscale_prior", PR.GammaPrior(a + 1.0, b), "outputscale")
    return model.double()


BASE_KERNELS = ["rbf", "matern05", "matern15", "matern25", "rq", "periodic", "sum", "prod", "linear_rbf", "scaled_sum"]


def _base_kernel(kind, d, ard, batch, active_dims=None, ls_kw=None):
    kw = {"batch_shape": torch.Size(batch)}
    kw.update(ls_kw or {})
    if ard:
        kw["ard_num_dims"] = d if active_dims is None else len(active_dims)
    if active_dims is not None:
        kw["active_dims"] = tuple(active_dims)
    if kind == "rbf":
        return SimRBFKernel(**kw)
    if kind.startswith("matern"):
        return SimMaternKernel(nu={"05": 0.5, "15": 1.5, "25": 2.5}[kind[-2:]], **kw)
    if kind == "rq":
        return SimRQKernel(**kw)
    if kind == "periodic":
        return SimPeriodicKernel(**kw)
    if kind == "sum":
        return SimRBFKernel(**kw) + SimMaternKernel(nu=1.5, **kw)
    if kind == "prod":
        return SimRBFKernel(**kw) * SimPeriodicKernel(**kw)
    if kind == "linear_rbf":
        kw2 = {"batch_shape": torch.Size(batch)}
        return SimLinearKernel(**kw2) + SimRBFKernel(**kw)
    if kind == "scaled_sum":
        return K.ScaleKernel(SimRBFKernel(**kw), **{"batch_shape": torch.Size(batch)}) + SimMaternKernel(nu=2.5, **kw)
    raise ValueError(kind)


def _mean(kind, d, batch):
    if kind == "constant":
        return SimConstantMean(batch_shape=torch.Size(batch))
    if kind == "zero":
        return SimZeroMean(batch_shape=torch.Size(batch))
    if kind == "linear":
        return SimLinearMean(d, batch_shape=torch.Size(batch))
    raise ValueError(kind)


def fixed_noise_vector(seed, batch, n):
    return 0.05 + 0.3 * rand(seed + 77, *batch, n)


def with_nans(y, recipe, seed):
    """Missing observations (recipe["nan_rate"]): NaN targets, at least one observed entry per batch element."""
    rate = recipe.get("nan_rate")
    if not rate:
        return y
    y = y.clone()
    miss = torch.rand(y.shape, generator=gen(seed + 41)) < rate
    flat = miss.reshape(*miss.shape[: len(recipe.get("batch", []))], -1) if recipe.get("batch") else miss.reshape(1, -1)
    flat[..., 0] = False
    y[miss] = float("nan")
    return y


def build_exact(recipe, data=None, variant=0):
    """recipe -> model (training mode, float64).  `data` overrides the recipe's training data:
    dict(inputs=tuple, targets=tensor, fixed_noise=tensor|None)."""
    fam = recipe["family"]
    n, d, batch = recipe["n"], recipe["d"], list(recipe.get("batch", []))
    ds = recipe["data_seed"]
    tasks = recipe.get("tasks", 0)
    # ---- data
    data_batch = [] if recipe.get("shared_data") else batch  # shared_data: batched hyper-parameters on one un-batched data set
    if data is None:
        if fam == "grid":
            grid, x = grid_inputs(recipe["grid_n"], d)
            x = x.expand(*data_batch, *x.shape) if data_batch else x
        else:
            x = make_inputs(ds, data_batch, n, d)
        if fam == "hadamard":
            idx = torch.randint(0, tasks, (*data_batch, x.shape[-2], 1), generator=gen(ds + 5))
            inputs = (x, idx)
            y = make_targets(ds, x)
        elif fam == "multitask":
            inputs = (x,)
            y = make_targets(ds, x, tasks=tasks)
        else:
            inputs = (x,)
            y = make_targets(ds, x)
        fixed = fixed_noise_vector(ds, data_batch, x.shape[-2]) if recipe["lik"].startswith("fixed") else None
        y = with_nans(y, recipe, ds)
    else:
        inputs, y, fixed = data["inputs"], data["targets"], data.get("fixed_noise")
    # ---- likelihood
    lik_kw, ls_kw, os_kw = prior_kwargs(recipe, variant)
    lk = recipe["lik"]
    if fam == "multitask":
        lik = L.MultitaskGaussianLikelihood(num_tasks=tasks, rank=recipe.get("lik_rank", 0), batch_shape=torch.Size(batch))
    elif lk == "gaussian":
        lik = L.GaussianLikelihood(batch_shape=torch.Size(batch), **lik_kw)
    elif lk == "fixed":
        lik = L.FixedNoiseGaussianLikelihood(noise=fixed, batch_shape=torch.Size(batch))
    elif lk == "fixed_learn":
        lik = L.FixedNoiseGaussianLikelihood(noise=fixed, learn_additional_noise=True, batch_shape=torch.Size(batch))
    else:
        raise ValueError(lk)
    # ---- kernel
    ard = recipe.get("ard", False)
    base = _base_kernel(recipe.get("kernel", "rbf"), d, ard, batch, recipe.get("active_dims"), ls_kw if recipe.get("kernel") in ("rbf", "matern05", "matern15", "matern25", "rq") else None)
    mean = _mean(recipe.get("mean", "constant"), d, batch)
    mt = 0
    if fam == "default":
        covar = K.ScaleKernel(base, batch_shape=torch.Size(batch), **os_kw) if recipe.get("scale", True) else base
    elif fam == "kissgp":
        gb = recipe.get("grid_bounds")
        covar = K.ScaleKernel(
            K.GridInterpolationKernel(
                base, grid_size=recipe["grid_size"], num_dims=d, grid_bounds=[tuple(b) for b in gb] if gb else None
            )
        )
    elif fam == "sgpr":
        z = make_inputs(ds + 11, [], recipe["m"], d)
        covar = K.InducingPointKernel(K.ScaleKernel(base), inducing_points=z, likelihood=lik, active_dims=tuple(range(d)) if recipe.get("ipk_active_dims") else None)
    elif fam == "rff":
        torch.manual_seed(recipe.get("init_seed", 0))  # RFF weights are drawn at construction
        covar = K.ScaleKernel(K.RFFKernel(num_samples=recipe["rff_samples"], num_dims=None if recipe.get("rff_lazy") else d))
    elif fam == "grid":
        grid, _ = grid_inputs(recipe["grid_n"], d)
        covar = K.ScaleKernel(K.GridKernel(base, grid=grid))
    elif fam == "multitask":
        mean = M.MultitaskMean(mean, num_tasks=tasks)
        covar = K.MultitaskKernel(base, num_tasks=tasks, rank=recipe.get("rank", 1))  # (batch-shaped task covariances fail to broadcast; the data kernel carries the batch)
        mt = tasks
    elif fam == "hadamard":
        covar = K.ScaleKernel(base)
    else:
        raise ValueError(fam)
    ctor_inputs = inputs if len(inputs) > 1 else inputs[0]
    if data is None and recipe.get("one_d") and len(inputs) == 1 and inputs[0].dim() == 2 and inputs[0].shape[-1] == 1:
        ctor_inputs = inputs[0].squeeze(-1)
    late = data is None and recipe.get("late_data")
    model = ZooExactGP(None if late else ctor_inputs, None if late else y, lik, mean, covar, multitask=mt)
    if recipe.get("call_scale"):
        model.call_scale = float(recipe["call_scale"])
    if fam == "hadamard":
        model.task_covar_module = K.IndexKernel(num_tasks=tasks, rank=recipe.get("rank", 1))
    model = model.double()
    model.likelihood = model.likelihood.double()
    if late:
        model.set_train_data(ctor_inputs, y, strict=False)
    model = named_priors(model, recipe, variant)
    return model


def randomise_parameters(model, seed, scale=0.6):
    """Move every parameter by O(1) in raw space - what an optimiser or a sampler does.
    Call in training mode only (C03 excludes eval-mode edits)."""
    g = gen(seed)
    with torch.no_grad():
        for name, p in sorted(model.named_parameters(), key=lambda kv: kv[0]):
            if "inducing_points" in name:
                p.add_(0.05 * torch.randn(p.shape, generator=g, dtype=p.dtype))
            elif "chol_variational_covar" in name or "natural_tril_mat" in name:
                noise = 0.3 * torch.randn(p.shape, generator=g, dtype=p.dtype)
                p.add_(noise.tril(-1))
            elif "natural_mat" in name:
                pass  # must stay negative definite; moved by NGD steps instead
            else:
                p.add_(scale * torch.randn(p.shape, generator=g, dtype=p.dtype))


def exact_state(model):
    """Everything prediction-relevant, read through public getters (used to build the fresh oracle)."""
    lik = model.likelihood
    fixed = None
    if isinstance(lik, L.FixedNoiseGaussianLikelihood):
        fixed = lik.noise_covar.noise.detach().clone()
    return {
        "state_dict": {k: v.detach().clone() for k, v in model.state_dict().items()},
        "inputs": None if model.train_inputs is None else tuple(t.detach().clone() for t in model.train_inputs),
        "targets": None if model.train_targets is None else model.train_targets.detach().clone(),
        "fixed_noise": fixed,
    }


def fresh_exact(recipe, state):
    """A freshly constructed model of the same recipe holding `state` (constructor path, not set_train_data)."""
    data = {"inputs": state["inputs"], "targets": state["targets"], "fixed_noise": state["fixed_noise"]}
    f = build_exact(recipe, data=data)
    f.load_state_dict(state["state_dict"])
    return f


# ------------------------------------------------------------------ recipe generator (exact)


def gen_exact_recipe(rng, families=None, small=True):
    fams = families or ["default", "default", "default", "kissgp", "sgpr", "rff", "multitask", "hadamard", "grid"]
    fam = rng.choice(fams)
    r = {"family": fam, "data_seed": rng.randrange(1 << 30), "init_seed": rng.randrange(1 << 30)}
    r["d"] = rng.choice([1, 2, 3]) if fam in ("default", "sgpr", "rff") else rng.choice([1, 2])
    r["n"] = rng.randint(3, 8)
    r["batch"] = []
    r["lik"] = "gaussian"
    r["mean"] = rng.choice(["constant", "constant", "zero", "linear"])
    r["kernel"] = rng.choice(BASE_KERNELS)
    r["ard"] = rng.random() < 0.4
    if fam == "default":
        r["batch"] = rng.choice([[], [], [2], [3]])
        r["lik"] = rng.choice(["gaussian", "gaussian", "fixed", "fixed_learn"])
        r["scale"] = rng.random() < 0.8
        pr = rng.random()
        if pr < 0.2:
            r["priors"] = "ctor"
        elif pr < 0.3:
            r["priors"] = "named"
        if r["d"] >= 2 and rng.random() < 0.3:
            k = rng.randint(1, r["d"] - 1)
            r["active_dims"] = sorted(rng.sample(range(r["d"]), k))
        if r["kernel"] in ("rbf", "matern05", "matern15", "matern25", "rq") and rng.random() < 0.12:
            r["call_scale"] = rng.choice([0.5, 1.7])  # forward() passes a call-time keyword to the kernel
    elif fam == "kissgp":
        r["kernel"] = rng.choice(["rbf", "matern25", "matern15"])
        r["ard"] = False
        r["grid_size"] = rng.choice([6, 8, 12]) if r["d"] == 1 else rng.choice([5, 6])
        r["grid_bounds"] = [[-0.2, 1.2]] * r["d"] if rng.random() < 0.6 else None
        r["mean"] = rng.choice(["constant", "zero"])
    elif fam == "sgpr":
        r["m"] = rng.randint(2, 5)
        r["kernel"] = rng.choice(["rbf", "matern25", "rq", "sum"])
        r["ipk_active_dims"] = rng.random() < 0.4  # an active_dims buffer on the inducing point kernel itself
    elif fam == "rff":
        r["rff_samples"] = rng.choice([4, 10])
        r["rff_lazy"] = rng.random() < 0.4  # input dimension unknown at construction: weights drawn at the first evaluation
        r["kernel"] = "rbf"  # unused
        r["ard"] = False
    elif fam == "grid":
        r["d"] = rng.choice([1, 2])
        r["grid_n"] = rng.choice([3, 4]) if r["d"] == 2 else rng.choice([4, 6])
        r["n"] = r["grid_n"] ** r["d"]
        r["kernel"] = rng.choice(["rbf", "matern25"])
        r["ard"] = False
        r["mean"] = rng.choice(["constant", "zero"])
    elif fam == "multitask":
        r["tasks"] = rng.choice([2, 3])
        r["rank"] = rng.choice([0, 1, 2]) if r["tasks"] > 2 else rng.choice([0, 1])
        r["rank"] = max(r["rank"], 1) if rng.random() < 0.5 else r["rank"]
        r["lik_rank"] = rng.choice([0, 0, 1])
        r["n"] = rng.randint(3, 5)
        r["kernel"] = rng.choice(["rbf", "matern25", "rq"])
        r["mean"] = rng.choice(["constant", "zero"])
    elif fam == "hadamard":
        r["tasks"] = rng.choice([2, 3])
        r["rank"] = 1
        r["mean"] = rng.choice(["constant", "zero"])
    # input-format variations of the LIVE model (the fresh oracle is always built through the constructor from 2-D data):
    # 1-D training / test inputs (ExactGP unsqueezes them), and a model constructed without data that gets its
    # data through set_train_data(strict=False) afterwards
    if r["d"] == 1 and not r["batch"] and fam in ("default", "kissgp", "sgpr", "rff") and rng.random() < 0.15:
        r["one_d"] = True
    if fam in ("default", "kissgp", "sgpr", "rff", "multitask", "hadamard") and rng.random() < 0.12:
        r["late_data"] = True
    return r


# ====================================================================== variational models

from gpytorch import variational as V  # noqa: E402

VAR_STRATEGIES = ["vs", "vs", "unwhitened", "batch_decoupled", "orth_decoupled", "ciq", "grid_interp", "lmc", "indep_mt", "nn"]
VAR_DISTS = ["cholesky", "meanfield", "delta", "natural", "tril_natural"]


class ZooSVGP(gpytorch.models.ApproximateGP):
    def __init__(self, recipe, variant=0):
        d, m = recipe["d"], recipe["m"]
        strat = recipe["strategy"]
        ds = recipe["data_seed"]
        lat = recipe.get("latents", 0)
        vbatch = torch.Size([lat]) if strat in ("lmc", "indep_mt") else torch.Size([])
        # variant 1: other initial inducing locations (they are parameters or buffers and travel in the state_dict)
        z = make_inputs(ds + 11 + 1009 * variant, [], m, d)
        # the caller's tensor and a copy of it: nothing the model does later may write into the caller's tensor
        object.__setattr__(self, "_ctor_tensors", (z, z.clone()))

        def dist(kind, num, batch=vbatch):
            if kind == "cholesky":
                return V.CholeskyVariationalDistribution(num, batch_shape=batch)
            if kind == "meanfield":
                return V.MeanFieldVariationalDistribution(num, batch_shape=batch)
            if kind == "delta":
                return V.DeltaVariationalDistribution(num, batch_shape=batch)
            if kind == "natural":
                return V.NaturalVariationalDistribution(num, batch_shape=batch)
            if kind == "tril_natural":
                return V.TrilNaturalVariationalDistribution(num, batch_shape=batch)
            raise ValueError(kind)

        learn = recipe.get("learn_z", True)
        vd = dist(recipe["dist"], m)
        if strat == "vs":
            vs = V.VariationalStrategy(self, z, vd, learn_inducing_locations=learn)
        elif strat == "unwhitened":
            vs = V.UnwhitenedVariationalStrategy(self, z, vd, learn_inducing_locations=learn)
        elif strat == "batch_decoupled":
            vs = V.BatchDecoupledVariationalStrategy(self, z, vd, learn_inducing_locations=learn)
        elif strat == "orth_decoupled":
            base_z = make_inputs(ds + 12 + 1009 * variant, [], max(2, m - 1), d)
            base = V.VariationalStrategy(self, base_z, V.CholeskyVariationalDistribution(base_z.shape[-2]), learn_inducing_locations=learn)
            vs = V.OrthogonallyDecoupledVariationalStrategy(base, z, V.DeltaVariationalDistribution(m))
        elif strat == "ciq":
            vs = V.CiqVariationalStrategy(self, z, vd, learn_inducing_locations=learn)
        elif strat == "grid_interp":
            gs = recipe["grid_size"]
            vs = V.GridInterpolationVariationalStrategy(self, gs, [(-0.2, 1.2)] * d, dist(recipe["dist"], gs**d))
        elif strat == "nn":
            # nearest-neighbour strategy: the inducing points are a buffer; the neighbour tables are derived from them
            vs = V.NNVariationalStrategy(self, z, V.MeanFieldVariationalDistribution(m), k=recipe.get("k", 2), training_batch_size=m)
        elif strat == "lmc":
            base = V.VariationalStrategy(self, z, vd, learn_inducing_locations=learn)
            vs = V.LMCVariationalStrategy(base, num_tasks=recipe["tasks"], num_latents=lat, latent_dim=-1)
        elif strat == "indep_mt":
            base = V.VariationalStrategy(self, z, vd, learn_inducing_locations=learn)
            vs = V.IndependentMultitaskVariationalStrategy(base, num_tasks=lat)
        else:
            raise ValueError(strat)
        super().__init__(vs)
        kbatch = list(vbatch)
        if strat == "batch_decoupled":
            kbatch = [2]
        _, ls_kw, os_kw = prior_kwargs(recipe, variant)
        self.mean_module = _mean(recipe.get("mean", "constant"), d, kbatch)
        base_k = _base_kernel(recipe.get("kernel", "rbf"), d, recipe.get("ard", False), kbatch, None, ls_kw)
        self.covar_module = K.ScaleKernel(base_k, batch_shape=torch.Size(kbatch), **os_kw)

    def forward(self, x):
        FAULTS.hit("forward")
        return MultivariateNormal(self.mean_module(x), self.covar_module(x))


def build_variational(recipe, variant=0):
    """recipe -> (model with .likelihood attribute, training data x, y) in training mode, float64."""
    torch.manual_seed(recipe.get("init_seed", 0))
    model = ZooSVGP(recipe, variant)
    lik_kw, _, _ = prior_kwargs(recipe, variant)
    strat = recipe["strategy"]
    if recipe["lik"] == "bernoulli":
        lik = L.BernoulliLikelihood()
    elif strat == "lmc":
        lik = L.MultitaskGaussianLikelihood(num_tasks=recipe["tasks"])
    elif strat == "indep_mt":
        lik = L.MultitaskGaussianLikelihood(num_tasks=recipe["latents"])
    else:
        lik = L.GaussianLikelihood(**lik_kw)
    model.likelihood = lik
    model = model.double()
    model = named_priors(model, recipe, variant)
    return model


def variational_data(recipe, seed=None):
    ds = recipe["data_seed"] if seed is None else seed
    x = make_inputs(ds, [], recipe["n"], recipe["d"])
    strat = recipe["strategy"]
    if strat == "lmc":
        y = make_targets(ds, x, tasks=recipe["tasks"])
    elif strat == "indep_mt":
        y = make_targets(ds, x, tasks=recipe["latents"])
    else:
        y = make_targets(ds, x)
    if recipe["lik"] == "bernoulli":
        y = (y > 0).to(DT)
    return x, y


def gen_variational_recipe(rng, strategies=None):
    strat = rng.choice(strategies or VAR_STRATEGIES)
    r = {"family": "variational", "strategy": strat, "data_seed": rng.randrange(1 << 30), "init_seed": rng.randrange(1 << 30)}
    r["d"] = rng.choice([1, 2])
    r["m"] = rng.randint(2, 5)
    r["n"] = rng.randint(4, 8)
    r["dist"] = rng.choice(VAR_DISTS)
    r["lik"] = rng.choice(["gaussian", "gaussian", "bernoulli"])
    r["learn_z"] = rng.random() < 0.7
    r["mean"] = rng.choice(["constant", "zero"])
    r["kernel"] = rng.choice(["rbf", "matern25", "matern15", "rq"])
    r["ard"] = rng.random() < 0.3
    if strat == "unwhitened":
        r["dist"] = "cholesky"
    if strat == "batch_decoupled" and r["dist"] == "delta":
        r["dist"] = "cholesky"
    if strat in ("orth_decoupled",):
        r["dist"] = "delta"
    if strat == "ciq":
        r["dist"] = rng.choice(["natural", "cholesky", "meanfield"])
    if strat == "nn":
        r["dist"] = "meanfield"
        r["m"] = rng.randint(4, 6)
        r["k"] = rng.choice([2, 3])
        r["learn_z"] = False
    if strat == "grid_interp":
        r["grid_size"] = rng.choice([4, 5]) if r["d"] == 1 else 4
        r["dist"] = rng.choice(["cholesky", "meanfield"])
        r["learn_z"] = False
    pr = rng.random()
    if pr < 0.2:
        r["priors"] = "ctor"
    elif pr < 0.3:
        r["priors"] = "named"
    if strat in ("lmc", "indep_mt"):
        r["latents"] = rng.choice([2, 3])
        r["tasks"] = rng.choice([2, 3, 4])
        r["lik"] = "gaussian"
        r["dist"] = rng.choice(["cholesky", "meanfield"])
        r["ard"] = False
    return r


def model_state(model, recipe):
    """state for fresh-instance oracles of any family."""
    if recipe["family"] == "variational":
        return {"state_dict": {k: v.detach().clone() for k, v in model.state_dict().items()}}
    return exact_state(model)


def fresh_model(recipe, state):
    if recipe["family"] == "variational":
        f = build_variational(recipe)
        f.load_state_dict(state["state_dict"])
        return f
    return fresh_exact(recipe, state)
