"""C20 - settings are scoped.  Programs of real `with` statements over every exported
settings class, with exceptions at block boundaries, raising constructors and failing
library calls, checked step by step against a stack model over the documented defaults.
DESIGN.md section 4.6."""
from __future__ import annotations

import json
import warnings

import torch

from . import core

PROPERTY = "C20"
NAME = "c20"
RULE = (
    "a case is one generated program (tree of with-statements over settings classes, raises, try blocks, "
    "library calls); it is non-trivial when it contains at least one with-block that changes an observable "
    "AND (a nested block or an exception or a library call); distinct = distinct canonical program shape "
    "(class names, argument values, statement structure) counted with a hash set.  Every batch additionally contains the "
    "EXHAUSTIVE enumeration of the two-level nesting space: 94 representative constructor calls (every exported class, "
    "every field) as outer block x the same 94 as inner block x {no exception, exception in the inner body, exception "
    "(Exception or BaseException) in the outer body after the inner block closed, inner block entered while warnings "
    "are errors} = 35344 programs "
    "(probe enumerated_two_level_program)"
)
STUBBED = [
    "user-owned kernel / noise model / variational strategy with a SimFault fault point (the place a real OOM surfaces)"
]
ASSUMPTIONS = [
    "documented defaults table in sim/m_c20.py (cross-checked against the '(Default: ...)' docstrings at load time where present)",
    "manager objects are constructed inline at the with statement (well-nested programs, as the property quantifies)",
    "linear_operator is the installed dependency, not part of /repo; its settings classes are exercised because gpytorch.settings exports them",
]
EXPECTED_PROBES = {
    "quick": ["exception_through_block", "raising_constructor", "libcall_fault_fired", "nested_same_class", "base_exception", "enumerated_two_level_program"],
    "thorough": ["exception_through_block", "raising_constructor", "libcall_fault_fired", "nested_same_class", "base_exception", "enumerated_two_level_program"],
}


class SimError(Exception):
    pass


class SimAbort(BaseException):
    pass


class SimFault(RuntimeError):
    pass


# ----------------------------------------------------------------------------- catalogue

FLAG_DEFAULTS = {
    "ciq_samples": False,
    "debug": True,
    "detach_test_caches": True,
    "deterministic_probes": False,
    "fast_pred_samples": False,
    "fast_pred_var": False,
    "lazily_evaluate_kernels": True,
    "memory_efficient": False,
    "prior_mode": False,
    "sgpr_diagonal_correction": True,
    "skip_logdet_forward": False,
    "skip_posterior_variances": False,
    "terminate_cg_by_size": False,
    "trace_mode": False,
    "use_keops": True,
    "use_toeplitz": True,
    "verbose_linalg": False,
    "default_preconditioner": False,
}
VALUE_DEFAULTS = {
    "_linalg_dtype_cholesky": "torch.float64",
    "_linalg_dtype_symeig": "torch.float64",
    "cg_tolerance": 1,
    "cholesky_max_tries": 3,
    "eval_cg_tolerance": 0.01,
    "max_cg_iterations": 1000,
    "max_cholesky_size": 800,
    "max_eager_kernel_size": 512,
    "max_lanczos_quadrature_iterations": 20,
    "max_preconditioner_size": 15,
    "max_root_decomposition_size": 100,
    "min_preconditioning_size": 2000,
    "minres_tolerance": 1e-4,
    "num_contour_quadrature": 15,
    "num_gauss_hermite_locs": 20,
    "num_likelihood_samples": 10,
    "num_trace_samples": 10,
    "observation_nan_policy": "ignore",
    "preconditioner_tolerance": 1e-3,
    "tridiagonal_jitter": 1e-6,
    "checkpoint_kernel": 0,
}
DTYPE_DEFAULTS = {
    "cholesky_jitter": (1e-6, 1e-8, None),
    "min_fixed_noise": (1e-4, 1e-6, 1e-3),
    "min_variance": (1e-6, 1e-10, 1e-3),
    "variational_cholesky_jitter": (1e-4, 1e-6, None),
}
SPECIAL = ("fast_computations", "linalg_dtypes")
INT_VALUED = {
    "cholesky_max_tries",
    "max_cg_iterations",
    "max_cholesky_size",
    "max_eager_kernel_size",
    "max_lanczos_quadrature_iterations",
    "max_preconditioner_size",
    "max_root_decomposition_size",
    "min_preconditioning_size",
    "num_contour_quadrature",
    "num_gauss_hermite_locs",
    "num_likelihood_samples",
    "num_trace_samples",
    "checkpoint_kernel",
}
INT_POOL = [0, 1, 2, 5, 17, 100, 4096]
FLOAT_POOL = [1e-8, 1e-3, 0.05, 0.5, 1.0, 10.0]
DTYPES = {"torch.float32": torch.float32, "torch.float64": torch.float64, "torch.float16": torch.float16}
_RDT = {v: k for k, v in DTYPES.items()}


def _classes():
    from gpytorch import beta_features, settings

    out = {}
    for n in settings.__all__:
        out[n] = getattr(settings, n)
    for n in beta_features.__all__:
        out[n] = getattr(beta_features, n)
    return out


def _origin(setting):
    """Which package defines the class behind an observation prefix (gpytorch itself or the linear_operator dependency)."""
    import linear_operator.settings as los

    c = _classes().get(setting)
    if c is None:
        c = getattr(los, setting, None)
    mod = getattr(c, "__module__", "") or ""
    if setting in SPECIAL:
        mod = getattr(_classes().get(setting), "__module__", "")
    return "linear_operator" if mod.startswith("linear_operator") else "gpytorch"


def catalogue_names():
    return sorted(_classes())


def _norm(v):
    if isinstance(v, torch.dtype):
        return _RDT.get(v, str(v))
    return v


def observe():
    """Every public observable of every exported setting -> plain dict."""
    cl = _classes()
    o = {}
    for n in sorted(cl):
        c = cl[n]
        if n in FLAG_DEFAULTS:
            on = c.on()
            o[n + ".on"] = on
            if c.off() != (not on):
                o[n + ".off_inconsistent"] = True
            if n == "fast_pred_var":
                o[n + ".num_probe_vectors"] = c.num_probe_vectors()
        elif n in VALUE_DEFAULTS:
            o[n + ".value"] = _norm(c.value())
        elif n in DTYPE_DEFAULTS:
            o[n + ".float"] = c.value(torch.float)
            o[n + ".double"] = c.value(torch.double)
            o[n + ".half"] = c.value(torch.half)
        elif n == "fast_computations":
            o[n + ".covar_root_decomposition"] = c.covar_root_decomposition.on()
            o[n + ".log_prob"] = c.log_prob.on()
            o[n + ".solves"] = c.solves.on()
        elif n == "linalg_dtypes":
            pass  # observed through _linalg_dtype_symeig / _linalg_dtype_cholesky
        else:
            raise core.HarnessError("setting %s is exported but not in the harness catalogue" % n)
    return o


def default_observation():
    o = {}
    for n in catalogue_names():
        if n in FLAG_DEFAULTS:
            o[n + ".on"] = FLAG_DEFAULTS[n]
            if n == "fast_pred_var":
                o[n + ".num_probe_vectors"] = 1
        elif n in VALUE_DEFAULTS:
            o[n + ".value"] = VALUE_DEFAULTS[n]
        elif n in DTYPE_DEFAULTS:
            f, d, h = DTYPE_DEFAULTS[n]
            o[n + ".float"], o[n + ".double"], o[n + ".half"] = f, d, h
        elif n == "fast_computations":
            o[n + ".covar_root_decomposition"] = True
            o[n + ".log_prob"] = True
            o[n + ".solves"] = True
    return o


def reset_globals():
    """Harness hygiene between runs: put every class attribute back to the value it has
    right after import (captured once per process, before any program ran)."""
    for c, attrs in _PRISTINE:
        for a, v in attrs.items():
            setattr(c, a, v)


_PRISTINE = []


def _capture_pristine():
    if _PRISTINE:
        return
    import logging

    logging.getLogger("LinAlg (Verbose)").disabled = True  # verbose_linalg(True) would spam stderr
    seen = set()
    cl = _classes()
    from linear_operator import settings as ls

    extra = [ls._fast_covar_root_decomposition, ls._fast_log_prob, ls._fast_solves]
    for c in list(cl.values()) + extra:
        if id(c) in seen or not isinstance(c, type):
            continue
        seen.add(id(c))
        attrs = {}
        for a in ("_state", "_global_value", "_global_float_value", "_global_double_value", "_global_half_value", "_num_probe_vectors"):
            if hasattr(c, a):
                attrs[a] = getattr(c, a)
        _PRISTINE.append((c, attrs))


def apply_effect(O, item):
    """Documented effect of entering `Setting(**args)` on the observation vector."""
    n, a = item
    if n in FLAG_DEFAULTS:
        O[n + ".on"] = a.get("state", True)
        if n == "fast_pred_var":
            O[n + ".num_probe_vectors"] = a.get("num_probe_vectors", 1)
    elif n in VALUE_DEFAULTS:
        O[n + ".value"] = a["value"]
    elif n in DTYPE_DEFAULTS:
        for fld, key in (("float_value", ".float"), ("double_value", ".double"), ("half_value", ".half")):
            if a.get(fld) is not None:
                O[n + key] = a[fld]
    elif n == "fast_computations":
        O[n + ".covar_root_decomposition"] = a.get("covar_root_decomposition", True)
        O[n + ".log_prob"] = a.get("log_prob", True)
        O[n + ".solves"] = a.get("solves", True)
    elif n == "linalg_dtypes":
        d = a.get("default", "torch.float64")
        O["_linalg_dtype_symeig.value"] = a.get("symeig") or d
        O["_linalg_dtype_cholesky.value"] = a.get("cholesky") or d
    else:
        raise core.HarnessError("unknown setting " + n)


def construct(item):
    n, a = item
    c = _classes()[n]
    kw = dict(a)
    if n in ("_linalg_dtype_cholesky", "_linalg_dtype_symeig"):
        kw["value"] = DTYPES[kw["value"]]
    if n == "linalg_dtypes":
        kw = {k: (DTYPES[v] if v is not None else None) for k, v in kw.items()}
    if n in VALUE_DEFAULTS:
        return c(kw["value"])
    return c(**kw)


# ----------------------------------------------------------------------------- generator


def gen_item(rng, names, allow_bad):
    n = rng.choice(names)
    if n in FLAG_DEFAULTS:
        r = rng.random()
        a = {} if r < 0.15 else {"state": rng.random() < 0.5}
        if n == "fast_pred_var" and rng.random() < 0.7:
            a["num_probe_vectors"] = rng.choice([1, 2, 5, 10, 0, -1, 2.0])  # any value is accepted and must be scoped
            a.setdefault("state", rng.random() < 0.5)
        return [n, a]
    if n in VALUE_DEFAULTS:
        if n == "observation_nan_policy":
            pool = ["ignore", "mask", "fill"]
            if allow_bad and rng.random() < 0.3:
                return [n, {"value": rng.choice(["drop", "MASK", ""])}]
            return [n, {"value": rng.choice(pool)}]
        if n.startswith("_linalg_dtype"):
            return [n, {"value": rng.choice(["torch.float32", "torch.float64"])}]
        if n in INT_VALUED:
            return [n, {"value": rng.choice(INT_POOL)}]
        return [n, {"value": rng.choice(FLOAT_POOL)}]
    if n in DTYPE_DEFAULTS:
        a = {}
        for fld in ("float_value", "double_value", "half_value"):
            if rng.random() < 0.55:
                a[fld] = rng.choice(FLOAT_POOL)
        return [n, a]
    if n == "fast_computations":
        a = {}
        for fld in ("covar_root_decomposition", "log_prob", "solves"):
            if rng.random() < 0.7:
                a[fld] = rng.random() < 0.5
        return [n, a]
    if n == "linalg_dtypes":
        a = {}
        if rng.random() < 0.7:
            a["default"] = rng.choice(["torch.float32", "torch.float64"])
        for fld in ("symeig", "cholesky"):
            if rng.random() < 0.4:
                a[fld] = rng.choice(["torch.float32", "torch.float64"])
        return [n, a]
    raise core.HarnessError("no generator for " + n)


LIBCALLS = ["exact_predict", "kl_divergence", "hetero_noise", "cylindrical", "lazy_kernel_eval", "lazy_kernel_prebuilt"]


def gen_block(rng, cfg, depth):
    stmts = []
    n = rng.randint(1, cfg["max_stmts"]) if depth > 0 else rng.randint(1, cfg["max_top"])
    for _ in range(n):
        kinds = [("with", 5.0 if depth < cfg["max_depth"] else 0.0), ("obs", 1.0)]
        if cfg["raises"]:
            kinds.append(("raise", 1.2 if depth > 0 else 0.3))
            kinds.append(("try", 1.0 if depth < cfg["max_depth"] else 0.0))
        if cfg["libcalls"]:
            kinds.append(("lib", cfg["lib_w"]))
        if cfg.get("slots"):
            kinds.append(("mk", 1.2))
            kinds.append(("withslot", 3.0 if depth < cfg["max_depth"] else 0.0))
        k = core.weighted_choice(rng, kinds)
        if k == "mk":
            # c = Setting(args): an instance constructed here and entered later (possibly elsewhere, possibly twice)
            stmts.append(["mk", rng.randrange(3), gen_item(rng, cfg["names"], cfg["bad_ctor"])])
        elif k == "withslot":
            stmts.append(["withslot", rng.randrange(3), gen_block(rng, cfg, depth + 1)])
        elif k == "with":
            ni = core.weighted_choice(rng, [(1, 6), (2, 3), (3, 1)])
            items = [gen_item(rng, cfg["names"], cfg["bad_ctor"]) for _ in range(ni)]
            w = ["with", items, gen_block(rng, cfg, depth + 1)]
            if cfg.get("werror") and rng.random() < 0.3:
                w.append(True)
            stmts.append(w)
        elif k == "obs":
            stmts.append(["obs"])
        elif k == "raise":
            stmts.append(["raise", "base" if (cfg["base_exc"] and rng.random() < 0.3) else "exc"])
        elif k == "try":
            stmts.append(["try", gen_block(rng, cfg, depth + 1)])
        elif k == "lib":
            stmts.append(["lib", rng.choice(cfg["lib_kinds"]), rng.random() < cfg["lib_fault_p"], rng.randint(1, 4)])
    return stmts


def enum_items():
    """Representative constructor calls of every exported setting (2 per class; more for the multi-field ones)."""
    items = []
    for n in catalogue_names():
        if n in FLAG_DEFAULTS:
            items += [[n, {"state": True}], [n, {"state": False}]]
            if n == "fast_pred_var":
                items += [[n, {"state": True, "num_probe_vectors": 5}], [n, {"state": False, "num_probe_vectors": 2}], [n, {"state": True, "num_probe_vectors": 0}]]
        elif n in VALUE_DEFAULTS:
            if n == "observation_nan_policy":
                items += [[n, {"value": "mask"}], [n, {"value": "fill"}]]
            elif n.startswith("_linalg_dtype"):
                items += [[n, {"value": "torch.float32"}], [n, {"value": "torch.float64"}]]
            elif n in INT_VALUED:
                items += [[n, {"value": 0}], [n, {"value": 17}]]
            else:
                items += [[n, {"value": 1e-8}], [n, {"value": 0.5}]]
        elif n in DTYPE_DEFAULTS:
            items += [[n, {"float_value": 0.05}], [n, {"double_value": 1e-3, "half_value": 0.5}], [n, {"float_value": 1.0, "double_value": 10.0, "half_value": 1e-3}]]
        elif n == "fast_computations":
            items += [[n, {"covar_root_decomposition": False}], [n, {"log_prob": False, "solves": True}], [n, {"covar_root_decomposition": False, "log_prob": False, "solves": False}]]
        elif n == "linalg_dtypes":
            items += [[n, {"default": "torch.float32"}], [n, {"default": "torch.float64", "cholesky": "torch.float32"}]]
    return items


_ENUM = {}


def enum_program(index):
    """Exhaustive enumeration of the two-level nesting space: outer item x inner item x exception placement.
    placement 0: no exception; 1: raised in the inner body; 2: raised in the outer body after the inner block closed;
    3: the inner block is entered while warnings are errors (an __enter__ that warns raises)."""
    if "items" not in _ENUM:
        _ENUM["items"] = enum_items()
    items = _ENUM["items"]
    n = len(items)
    total = n * n * 4
    if index >= total:
        return None
    place, rest = index % 4, index // 4
    inner, outer = items[rest % n], items[rest // n]
    if place == 0:
        body = [["with", [inner], [["obs"]]], ["obs"]]
    elif place == 1:
        body = [["try", [["with", [inner], [["raise", "exc"]]]]], ["obs"]]
    elif place == 2:
        body = [["with", [inner], [["obs"]]], ["raise", "base" if (rest % 2) else "exc"]]
    else:  # the inner block is entered while warnings are errors
        body = [["try", [["with", [inner], [["obs"]], True]]], ["obs"]]
    return [["with", [outer], body], ["obs"]]


def enum_size():
    if "items" not in _ENUM:
        _ENUM["items"] = enum_items()
    return len(_ENUM["items"]) ** 2 * 4


def generate(rng, tier, index):
    if tier == "thorough" or index % 2 == 0:
        # the even indices of a quick batch (all first indices of a thorough batch) walk through the exhaustive
        # two-level enumeration; a quick batch of 60000 covers all ~29000 of it
        e = enum_program(index // 2 if tier != "thorough" else index)
        if e is not None:
            return {"ops": e, "header": {"enumerated": True}}
    allnames = catalogue_names()
    # swarm: per run, a subset of classes (so same-class nesting is frequent), structure knobs, fault kinds
    mode = rng.random()
    if mode < 0.35:
        names = rng.sample(allnames, rng.randint(1, 3))
    elif mode < 0.75:
        names = rng.sample(allnames, rng.randint(4, 10))
    else:
        names = allnames
    # stratification: guarantee every class heads a program once per batch
    if index < len(allnames) * 2:
        forced = allnames[index % len(allnames)]
        if forced not in names:
            names = sorted(set(names) | {forced})
    else:
        forced = None
    deep = tier == "thorough"
    cfg = {
        "names": names,
        "max_depth": rng.choice([1, 2, 3, 4] if not deep else [2, 3, 4, 5, 6]),
        "max_stmts": rng.choice([1, 2, 3]),
        "max_top": rng.choice([1, 2, 3, 4]),
        "raises": rng.random() < 0.8,
        "base_exc": rng.random() < 0.5,
        "bad_ctor": rng.random() < 0.6,
        "libcalls": rng.random() < (0.12 if not deep else 0.2),
        "lib_w": rng.choice([0.5, 1.5]),
        "lib_kinds": rng.sample(LIBCALLS, rng.randint(1, len(LIBCALLS))),
        "lib_fault_p": rng.choice([0.3, 0.7, 1.0]),
        "werror": rng.random() < 0.3,
        "slots": rng.random() < 0.4,
    }
    ops = gen_block(rng, cfg, 0)
    if cfg["slots"]:
        ops = [["mk", j, gen_item(rng, names, False)] for j in range(rng.randint(1, 3))] + ops
    if forced is not None:
        it = gen_item(rng, [forced], cfg["bad_ctor"])
        ops = [["with", [it], ops[:2] + [["raise", "exc"]] if index % 2 else ops[:2]]] + ops[2:]
    return {"ops": ops}


# ----------------------------------------------------------------------------- library calls (real code, user-owned fault points)


class _Arm:
    def __init__(self, k):
        self.k = k  # raise on the k-th call; 0 = never
        self.calls = 0
        self.fired = False

    def hit(self):
        self.calls += 1
        if self.k and self.calls == self.k:
            self.fired = True
            raise SimFault("injected fault at user-module call %d" % self.calls)


def _libcall(kind, fault, k, out):
    import gpytorch

    arm = _Arm(k if fault else 0)
    torch.manual_seed(1234)

    class FaultyRBF(gpytorch.kernels.RBFKernel):
        def forward(self, x1, x2, diag=False, **params):
            arm.hit()
            return super().forward(x1, x2, diag=diag, **params)

    class GP(gpytorch.models.ExactGP):
        def __init__(self, x, y, lik, kern):
            super().__init__(x, y, lik)
            self.mean_module = gpytorch.means.ConstantMean()
            self.covar_module = kern

        def forward(self, x):
            return gpytorch.distributions.MultivariateNormal(self.mean_module(x), self.covar_module(x))

    x = torch.linspace(0, 1, 5, dtype=torch.float64).unsqueeze(-1)
    y = torch.sin(x.squeeze(-1) * 3)
    xs = torch.rand(3, 1, dtype=torch.float64)
    try:
        if kind == "exact_predict":
            m = GP(x, y, gpytorch.likelihoods.GaussianLikelihood(), gpytorch.kernels.ScaleKernel(FaultyRBF())).double()
            m.eval()
            p = m(xs)
            p.mean.sum().item(), p.covariance_matrix.sum().item()
        elif kind == "lazy_kernel_eval":
            kern = FaultyRBF().double()
            lz = kern(x, xs)
            lz.to_dense()
        elif kind == "lazy_kernel_prebuilt":
            # a lazily evaluated kernel tensor that exists already (built under lazily_evaluate_kernels(True)) is evaluated,
            # multiplied and differentiated under the ambient settings: the library opens its own blocks for that
            kern = gpytorch.kernels.ScaleKernel(FaultyRBF()).double()
            with gpytorch.settings.lazily_evaluate_kernels(True):
                lz = kern(x, xs)
                lz2 = kern(x)
            (lz2 @ torch.ones(5, 1, dtype=torch.float64)).sum().backward()
            lz.to_dense()
        elif kind == "cylindrical":
            kern = gpytorch.kernels.CylindricalKernel(3, FaultyRBF()).double()
            xc = torch.rand(4, 2, dtype=torch.float64) * 0.5
            kern(xc, xc).to_dense()
        elif kind == "hetero_noise":
            nm = GP(x, y.abs() + 0.1, gpytorch.likelihoods.GaussianLikelihood(), gpytorch.kernels.ScaleKernel(FaultyRBF())).double()
            noise = gpytorch.likelihoods.noise_models.HeteroskedasticNoise(nm)
            noise(xs).to_dense()
        elif kind == "kl_divergence":

            class SVGP(gpytorch.models.ApproximateGP):
                def __init__(self):
                    z = torch.linspace(0, 1, 4, dtype=torch.float64).unsqueeze(-1)
                    vd = gpytorch.variational.CholeskyVariationalDistribution(4)
                    vs = gpytorch.variational.VariationalStrategy(self, z, vd, learn_inducing_locations=True)
                    super().__init__(vs)
                    self.mean_module = gpytorch.means.ConstantMean()
                    self.covar_module = gpytorch.kernels.ScaleKernel(FaultyRBF())

                def forward(self, x):
                    return gpytorch.distributions.MultivariateNormal(self.mean_module(x), self.covar_module(x))

            m = SVGP().double()
            m.train()
            m(x)
            arm.calls = 0 if not fault else arm.calls
            m.variational_strategy.kl_divergence().item()
        else:
            raise core.HarnessError("unknown libcall " + kind)
    finally:
        if arm.fired:
            out.stats["fault:libcall_" + kind] += 1
            out.stats["probe:libcall_fault_fired"] += 1


# ----------------------------------------------------------------------------- interpreter + stack model


class _Interp:
    def __init__(self, out):
        self.out = out
        self.O = default_observation()
        self.stack = []
        self.pos = 0  # interpreter event counter
        self.top = 0  # index of the current top-level statement
        self.active = []  # names of entered classes (for probes / cls features)
        self.slots = {}  # slot -> (item, instance): context-manager objects constructed earlier than they are entered
        self.via_slot = set()  # settings (observation prefixes) that were entered through such an object in this run

    # -- model
    def enter(self, item):
        self.stack.append((dict(self.O), item[0]))
        apply_effect(self.O, item)
        if item[0] in self.active:
            self.out.stats["probe:nested_same_class"] += 1
        self.active.append(item[0])
        self.out.transitions.add("enter:%s:d%d" % (item[0], min(len(self.stack), 4)))

    def pop_to(self, depth, why):
        while len(self.stack) > depth:
            self.O, name = self.stack.pop()
            self.active.pop()
            self.out.transitions.add("exit:%s:%s" % (name, why))

    # -- check
    def check(self, where, last_item=None):
        self.pos += 1
        self.out.steps += 1
        real = observe()
        self.out.log.add(where, real)
        self.out.stats["oracle_comparisons"] += 1
        if real != self.O:
            for k in sorted(set(real) | set(self.O)):
                if real.get(k) != self.O.get(k):
                    setting, field = k.rsplit(".", 1)
                    self.out.violate(
                        "settings_scope",
                        self.top,
                        "%s: %s reads %r, model says %r" % (where, k, real.get(k), self.O.get(k)),
                        family="settings",
                        setting=setting,
                        field=field,
                        where=where.split(":")[0],
                        via_prebuilt_instance=setting in self.via_slot,
                        origin=_origin(setting),
                    )
                    # re-synchronise the model so that one leak is reported once, not at every later step
                    self.O[k] = real.get(k)
                    for i, (snap, nm) in enumerate(self.stack):
                        pass
            # a leaked value also poisons saved snapshots only if they would restore the expected value;
            # snapshots keep the *expected* values so later exits are still judged against the model.

    # -- execution with real with-statements
    def mk(self, items, i):
        if i > 0:
            self.enter(items[i - 1])
            self.check("enter")
        with warnings.catch_warnings():
            warnings.simplefilter("ignore")
            try:
                return construct(items[i])
            except ValueError:
                self.out.stats["rejected:constructor"] += 1
                self.out.stats["probe:raising_constructor"] += 1
                raise

    def body(self, items, stmts):
        warnings.simplefilter("ignore")
        self.enter(items[-1])
        self.check("enter")
        self.block(stmts)

    def block(self, stmts):
        for s in stmts:
            self.stmt(s)

    def stmt(self, s):
        k = s[0]
        self.out.stats["op:" + k] += 1
        if k == "obs":
            self.check("obs")
        elif k == "raise":
            if s[1] == "base":
                self.out.stats["probe:base_exception"] += 1
                raise SimAbort()
            raise SimError()
        elif k == "try":
            try:
                self.block(s[1])
            except (SimError, SimAbort, SimFault, ValueError, Warning) as e:
                if isinstance(e, Warning):
                    self.out.stats["fault:entry_raised_warning_as_error"] += 1
                self.check("caught")
        elif k == "lib":
            try:
                with warnings.catch_warnings():
                    warnings.simplefilter("ignore")
                    _libcall(s[1], s[2], s[3], self.out)
            except SimFault:
                self.check("libcall_failed")
                raise
            except Exception as e:  # the library may legitimately fail under exotic settings (e.g. half dtypes)
                self.out.stats["rejected:libcall_" + type(e).__name__] += 1
                self.check("libcall_rejected")
            else:
                self.check("libcall")
        elif k == "mk":
            with warnings.catch_warnings():
                warnings.simplefilter("ignore")
                self.slots[s[1]] = None
                try:
                    self.slots[s[1]] = (s[2], construct(s[2]))
                except ValueError:
                    self.out.stats["rejected:constructor"] += 1
                    raise
            self.out.stats["probe:instance_constructed_ahead"] += 1
            self.check("constructed")
        elif k == "withslot":
            ent = self.slots.get(s[1])
            if ent is None:
                self.out.stats["skipped:empty_slot"] += 1
                self.block(s[2])
                return
            item, inst = ent
            d0 = len(self.stack)
            why = "normal"
            if any(nm == item[0] for _, nm in self.stack):
                self.out.stats["probe:prebuilt_instance_entered_inside_block_of_same_class"] += 1
            try:
                with inst:
                    scratch = {}
                    apply_effect(scratch, item)
                    self.via_slot.update(kk.rsplit(".", 1)[0] for kk in scratch)
                    self.via_slot.add(item[0])
                    if item[0] == "linalg_dtypes":
                        self.via_slot.update(["_linalg_dtype_symeig", "_linalg_dtype_cholesky"])
                    self.out.stats["fault:instance_entered_later_than_constructed"] += 1
                    self.body([item], s[2])
            except BaseException:
                why = "exception"
                raise
            finally:
                self.pop_to(d0, why)
                self.check("exit_" + why)
        elif k == "with":
            items, stmts = s[1], s[2]
            d0 = len(self.stack)
            why = "normal"
            werror = len(s) > 3 and bool(s[3])
            try:
                with warnings.catch_warnings():
                    warnings.simplefilter("ignore")
                    if werror:
                        # fault: warnings are errors while the block is being ENTERED (python -W error, pytest filterwarnings=error):
                        # an __enter__ that warns raises; body() switches the filter back before the body runs
                        warnings.simplefilter("error", DeprecationWarning)
                        self.out.stats["probe:with_entered_under_warnings_as_errors"] += 1
                    if len(items) == 1:
                        with self.mk(items, 0):
                            self.body(items, stmts)
                    elif len(items) == 2:
                        with self.mk(items, 0), self.mk(items, 1):
                            self.body(items, stmts)
                    else:
                        with self.mk(items, 0), self.mk(items, 1), self.mk(items, 2):
                            self.body(items, stmts)
            except BaseException:
                why = "exception"
                if len(self.stack) > d0:
                    self.out.stats["probe:exception_through_block"] += 1
                raise
            finally:
                self.pop_to(d0, why)
                self.check("exit_" + why)
        else:
            raise core.HarnessError("bad stmt " + repr(s))


def _shape(stmts):
    n_with = n_nest = n_raise = n_lib = 0

    def rec(b, d):
        nonlocal n_with, n_nest, n_raise, n_lib
        for s in b:
            if s[0] in ("with", "withslot"):
                n_with += 1
                if d > 0 or s[0] == "withslot":
                    n_nest += 1
                rec(s[2], d + 1)
            elif s[0] == "try":
                rec(s[1], d)
            elif s[0] == "raise":
                n_raise += 1
            elif s[0] == "lib":
                n_lib += 1

    rec(stmts, 0)
    return n_with, n_nest, n_raise, n_lib


def execute(history):
    out = core.Outcome()
    _capture_pristine()
    reset_globals()
    ops = history["ops"]
    it = _Interp(out)
    it.check("start")
    for i, s in enumerate(ops):
        it.top = i
        try:
            it.stmt(s)
        except (SimError, SimAbort, SimFault, ValueError, Warning) as e:
            if isinstance(e, Warning):
                out.stats["fault:entry_raised_warning_as_error"] += 1
            it.check("caught_top")
    it.top = len(ops)
    if it.stack:
        raise core.HarnessError("model stack not empty at program end")
    # at program end the model equals the defaults by construction; the real values are compared to it
    it.O = default_observation()
    it.check("end")
    if history.get("header", {}).get("enumerated"):
        out.stats["probe:enumerated_two_level_program"] += 1
    n_with, n_nest, n_raise, n_lib = _shape(ops)
    out.nontrivial = n_with >= 1 and (n_nest + n_raise + n_lib) >= 1
    out.sketch = json.dumps(ops, sort_keys=True)
    reset_globals()
    return out


# ----------------------------------------------------------------------------- rendering / simplification


def _fmt_item(item):
    n, a = item
    if n in VALUE_DEFAULTS:
        return "%s(%r)" % (n, a["value"]) if not str(a["value"]).startswith("torch.") else "%s(%s)" % (n, a["value"])
    args = ", ".join("%s=%s" % (k, v if str(v).startswith("torch.") else repr(v)) for k, v in a.items())
    return "%s(%s)" % (n, args)


def render(history):
    lines = ["# C20 program (settings = gpytorch.settings / gpytorch.beta_features); observe() after every step"]

    def rec(b, ind):
        if not b:
            lines.append(ind + "pass")
        for s in b:
            if s[0] == "with":
                lines.append(ind + "with " + ", ".join(_fmt_item(i) for i in s[1]) + ":" + ("   # entered under warnings.simplefilter('error', DeprecationWarning)" if len(s) > 3 and s[3] else ""))
                rec(s[2], ind + "    ")
            elif s[0] == "mk":
                lines.append(ind + "c%d = %s" % (s[1], _fmt_item(s[2])))
            elif s[0] == "withslot":
                lines.append(ind + "with c%d:   # the instance constructed earlier (skipped if c%d was never constructed)" % (s[1], s[1]))
                rec(s[2], ind + "    ")
            elif s[0] == "try":
                lines.append(ind + "try:")
                rec(s[1], ind + "    ")
                lines.append(ind + "except (SimError, SimAbort, SimFault, ValueError): pass")
            elif s[0] == "raise":
                lines.append(ind + ("raise SimAbort()  # BaseException" if s[1] == "base" else "raise SimError()"))
            elif s[0] == "lib":
                lines.append(ind + "libcall(%r, fault_at_call=%s)" % (s[1], s[3] if s[2] else None))
            else:
                lines.append(ind + "observe()")

    rec(history["ops"], "")
    return "\n".join(lines)


def simplify(history):
    """Structural shrinking below the top-level statement list."""
    ops = history["ops"]

    def variants(b):
        for i, s in enumerate(b):
            # drop the statement
            if len(b) > 1:
                yield b[:i] + b[i + 1 :]
            if s[0] == "with":
                # unwrap
                yield b[:i] + s[2] + b[i + 1 :]
                # fewer items
                if len(s[1]) > 1:
                    for j in range(len(s[1])):
                        yield b[:i] + [["with", s[1][:j] + s[1][j + 1 :], s[2]] + s[3:]] + b[i + 1 :]
                # fewer args
                for j, (n, a) in enumerate(s[1]):
                    for key in list(a):
                        if key == "value":
                            continue
                        a2 = {k: v for k, v in a.items() if k != key}
                        yield b[:i] + [["with", s[1][:j] + [[n, a2]] + s[1][j + 1 :], s[2]] + s[3:]] + b[i + 1 :]
                for v in variants(s[2]):
                    yield b[:i] + [["with", s[1], v] + s[3:]] + b[i + 1 :]
                if s[2]:
                    yield b[:i] + [["with", s[1], []] + s[3:]] + b[i + 1 :]
            elif s[0] == "withslot":
                yield b[:i] + s[2] + b[i + 1 :]
                for v in variants(s[2]):
                    yield b[:i] + [["withslot", s[1], v]] + b[i + 1 :]
                if s[2]:
                    yield b[:i] + [["withslot", s[1], []]] + b[i + 1 :]
            elif s[0] == "mk":
                n, a = s[2]
                for key in list(a):
                    if key == "value":
                        continue
                    yield b[:i] + [["mk", s[1], [n, {k: v for k, v in a.items() if k != key}]]] + b[i + 1 :]
            elif s[0] == "try":
                yield b[:i] + s[1] + b[i + 1 :]
                for v in variants(s[1]):
                    yield b[:i] + [["try", v]] + b[i + 1 :]
            elif s[0] == "lib" and s[2]:
                yield b[:i] + [["lib", s[1], False, s[3]]] + b[i + 1 :]

    for v in variants(ops):
        h = dict(history)
        h["ops"] = v
        yield h


def budget(tier):
    if tier == "quick":
        return {"runs": 60000, "wall": 150, "digest_sample": 48}
    return {"runs": 1500000, "wall": 1500, "digest_sample": 200}
