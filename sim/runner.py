"""Batch runner: seeded search over histories on 16 forked workers, minimisation,
fresh-interpreter replay, known-finding triage, evidence."""
from __future__ import annotations

import argparse
import collections
import json
import os
import subprocess
import sys
import time

from . import core

PROPERTY_MACHINES = {
    "C03": ["c03", "c03v"],
    "C04": ["c04", "c04l"],
    "C16": ["c16"],
    "C17": ["c17"],
    "C18": ["c18", "c18m", "c18l"],
    "C20": ["c20"],
}

VSIM = os.path.join(core.VERIF_ROOT, "bin", "vsim")
# scratch runs (mutant self-tests) must not overwrite the registered evidence / replay files
REPLAY_DIR = os.environ.get("VSIM_REPLAY_DIR") or os.path.join(core.VERIF_ROOT, "replays")
EVIDENCE_DIR = os.environ.get("VSIM_EVIDENCE_DIR") or os.path.join(core.VERIF_ROOT, "evidence")


def _pool(workers):
    import multiprocessing
    from concurrent.futures import ProcessPoolExecutor

    return ProcessPoolExecutor(max_workers=workers, mp_context=multiprocessing.get_context("fork"))


def _chunks(indices, size):
    for i in range(0, len(indices), size):
        yield indices[i : i + size]


def run_machine_batch(mname, tier, seed, runs, workers, wall, digest_sample):
    machine = core.get_machine(mname)
    indices = list(range(runs))
    # spread the sampled indices over the batch, deterministic
    want = set(indices[:: max(1, runs // max(1, digest_sample))][:digest_sample]) if digest_sample else set()
    deadline = time.time() + wall if wall else None
    chunk = max(1, min(64, runs // (workers * 8) or 1))
    pending = list(_chunks(indices, chunk))
    total = {
        "evaluations": 0,
        "steps": 0,
        "stats": collections.Counter(),
        "sketches": set(),
        "transitions": set(),
        "violations": [],
        "digests": {},
        "maxdiff": 0.0,
        "maxdiff_by": {},
        "harness_errors": [],
        "samples": [],
        "skipped": 0,
        "timeouts": [],
    }

    def merge(agg):
        total["evaluations"] += agg["evaluations"]
        total["steps"] += agg["steps"]
        total["stats"].update(agg["stats"])
        total["sketches"] |= agg["sketches"]
        total["transitions"] |= agg["transitions"]
        total["violations"].extend(agg["violations"])
        total["digests"].update(agg["digests"])
        total["maxdiff"] = max(total["maxdiff"], agg["maxdiff"])
        for rk, rv in agg["maxdiff_by"].items():
            total["maxdiff_by"][rk] = max(total["maxdiff_by"].get(rk, 0.0), rv)
        total["harness_errors"].extend(agg["harness_errors"])
        if len(total["samples"]) < 3:
            total["samples"].extend(agg["samples"])
        total["skipped"] += agg["skipped"]

    if workers <= 1:
        for c in pending:
            merge(core.run_chunk((mname, tier, seed, c, want, deadline)))
        return machine, total

    import shutil
    import tempfile
    from concurrent.futures import as_completed
    from concurrent.futures.process import BrokenProcessPool

    progress_dir = tempfile.mkdtemp(prefix="vsim_progress_")
    try:
        rounds = 0
        while pending:
            rounds += 1
            pool = _pool(workers)
            futs = {}
            for j, c in enumerate(pending):
                pf = os.path.join(progress_dir, "r%d_c%d" % (rounds, j))
                futs[pool.submit(core.run_chunk, (mname, tier, seed, c, want, deadline, pf))] = (c, pf)
            not_done = []
            try:
                for f in as_completed(futs):
                    c, pf = futs[f]
                    try:
                        merge(f.result())
                    except BrokenProcessPool:
                        not_done.append((c, pf))
            finally:
                pool.shutdown(wait=True, cancel_futures=True)
            pending = []
            suspects = []
            for c, pf in not_done:
                cur = None
                try:
                    with open(pf) as fh:
                        txt = fh.read().strip()
                    cur = int(txt) if txt not in ("", "done") else None
                except (OSError, ValueError):
                    cur = None
                rest = [i for i in c if i != cur]
                if cur is not None:
                    suspects.append(cur)
                if rest:
                    pending.append(rest)
            # every history that was in flight when the pool broke runs once more, alone in a one-worker pool: the one that
            # ends its worker again is the history over the wall limit (or crashing natively) - abandoned, counted, never judged
            for cur in suspects:
                one = _pool(1)
                try:
                    merge(one.submit(core.run_chunk, (mname, tier, seed, [cur], want, deadline)).result())
                except BrokenProcessPool:
                    total["timeouts"].append(cur)
                    total["stats"]["skipped:history_abandoned_worker_died"] += 1
                finally:
                    one.shutdown(wait=True, cancel_futures=True)
            if rounds > 50:
                raise core.HarnessError("worker processes keep dying: %d chunks still pending" % len(pending))
    finally:
        shutil.rmtree(progress_dir, ignore_errors=True)
    return machine, total


def fresh_digests(mname, tier, seed, indices, hashseed):
    env = dict(os.environ)
    env["PYTHONHASHSEED"] = str(hashseed)
    env["VSIM_REEXEC"] = "1"
    cmd = [
        sys.executable,
        VSIM,
        "digest",
        mname,
        "--tier",
        tier,
        "--seed",
        str(seed),
        "--indices",
        ",".join(str(i) for i in indices),
    ]
    p = subprocess.run(cmd, env=env, capture_output=True, text=True, timeout=1500)
    if p.returncode != 0:
        raise core.HarnessError("digest subprocess failed: " + p.stderr[-2000:])
    line = [ln for ln in p.stdout.splitlines() if ln.startswith("DIGESTS ")][-1]
    return {int(k): v for k, v in json.loads(line[len("DIGESTS ") :]).items()}


def cmd_digest(args):
    machine = core.get_machine(args.machine)
    out = {}
    for idx in [int(x) for x in args.indices.split(",") if x]:
        _, o = core.run_one(machine, args.tier, args.seed, idx)
        if o.harness_error:
            print(o.harness_error, file=sys.stderr)
            return 2
        out[idx] = o.log.hexdigest()
    print("DIGESTS " + json.dumps(out))
    return 0


def replay_in_fresh_interpreter(path):
    env = dict(os.environ)
    env["PYTHONHASHSEED"] = "7"
    env["VSIM_REEXEC"] = "1"
    p = subprocess.run([sys.executable, VSIM, "replay", path], env=env, capture_output=True, text=True, timeout=900)
    return p.returncode, p.stdout, p.stderr


def cmd_replay(args):
    machine, out, doc = core.replay_file(args.path)
    if out.harness_error:
        print("HARNESS-ERROR during replay:\n" + out.harness_error)
        return 2
    want = doc.get("violation", {}).get("inv")
    print("\n".join(doc.get("rendered", [])))
    hit = [v for v in out.violations if want is None or v["inv"] == want]
    for v in out.violations:
        print("violation inv=%s step=%s cls=%s :: %s" % (v["inv"], v["step"], json.dumps(v["cls"], sort_keys=True), v["detail"]))
    known = core.load_known_findings(machine.PROPERTY)
    if hit:
        kid = core.match_known(hit[0], known)
        if kid:
            print("KNOWN-FINDING: property=%s %s (reproduced from %s)" % (machine.PROPERTY, kid, args.path))
        else:
            print("VIOLATION property=%s replay=%s" % (machine.PROPERTY, args.path))
        print("REPRODUCED inv=%s digest=%s" % (hit[0]["inv"], out.log.hexdigest()))
        return 1
    print("NOT-REPRODUCED (no violation of %s)" % want)
    return 0


def cmd_check(args):
    t0 = time.time()
    prop = args.property
    tier = args.tier
    seed = args.seed
    known = core.load_known_findings(prop)
    workers = args.workers
    exit_code = 0
    ev_machines = []
    all_lines = []
    total_eval = 0
    total_distinct = 0
    samples = []
    total_violations = 0
    known_hits = collections.Counter()
    harness_failed = False

    for mname in PROPERTY_MACHINES[prop]:
        machine = core.get_machine(mname)
        budget = machine.budget(tier)
        runs = args.runs or budget["runs"]
        wall = args.wall or budget.get("wall")
        dsample = budget.get("digest_sample", 24)
        tm = time.time()
        machine, tot = run_machine_batch(mname, tier, seed, runs, workers, wall, dsample)
        if tot.get("timeouts"):
            print("ABANDONED machine=%s histories=%s (their worker process ended: over the %ds per-history wall limit, or a native crash; counted, not judged)" % (mname, sorted(tot["timeouts"])[:20], int(core.HISTORY_WALL_LIMIT)))
        elapsed = time.time() - tm

        # ---- harness errors: never a pass, never a violation
        if tot["harness_errors"]:
            harness_failed = True
            he = tot["harness_errors"][0]
            path = os.path.join(REPLAY_DIR, "harness-%s-%d.json" % (mname, he["index"]))
            os.makedirs(os.path.dirname(path), exist_ok=True)
            with open(path, "w") as f:
                json.dump(he, f, indent=1, default=str)
            print("HARNESS-ERROR machine=%s runs_affected=%d first=%s\n%s" % (mname, len(tot["harness_errors"]), path, he["error"]))

        # ---- determinism resample in a fresh interpreter with another hash seed
        det = {"seeds": 0, "mismatches": 0}
        if tot["digests"] and not args.no_determinism:
            idxs = sorted(tot["digests"])
            try:
                fresh = fresh_digests(mname, tier, seed, idxs, hashseed=12345)
                det["seeds"] = len(idxs)
                bad = [i for i in idxs if fresh.get(i) != tot["digests"][i]]
                det["mismatches"] = len(bad)
                if bad:
                    harness_failed = True
                    print("HARNESS-ERROR determinism: machine=%s indices %s differ between interpreters" % (mname, bad[:10]))
            except Exception as e:  # noqa
                harness_failed = True
                print("HARNESS-ERROR determinism resample failed: %r" % (e,))

        # ---- violations: group by class, minimise, replay, triage
        classes = collections.OrderedDict()
        for rec in tot["violations"]:
            k = core.class_key(rec["violation"], known)
            # one class per known finding (its signature already says what it is); unknown violations per family
            key = (k[0], k[1], rec["violation"]["cls"].get("family") if k[1] is None else "*")
            cur = classes.get(key)
            if cur is None or len(rec["history"].get("ops", [])) < len(cur["history"].get("ops", [])):
                classes[key] = rec
        total_violations += len(tot["violations"])
        n_min = 0
        for key, rec in classes.items():
            inv, kid, fam = key
            n_min += 1
            if n_min > (6 if tier == "quick" else 16):
                # still report un-minimised
                hist, viol, nexec = rec["history"], rec["violation"], 0
            else:
                hist, viol, nexec = core.minimise(
                    machine, rec["history"], rec["violation"], known, max_exec=250 if tier == "quick" else 600,
                    max_wall=60 if tier == "quick" else 180,
                )
            kid2 = core.match_known(viol, known)
            tag = kid2 if kid2 else "%s-%s" % (inv, fam)
            sub = "known" if kid2 else "new"
            path = os.path.join(
                REPLAY_DIR, sub, "%s-%s-%d.json" % (prop, _slug(tag), hist["header"]["run_seed"])
            )
            core.write_replay(machine, hist, viol, path)
            rc, so, se = replay_in_fresh_interpreter(path)
            if rc != 1:
                harness_failed = True
                print("HARNESS-ERROR violation did not replay in a fresh interpreter (rc=%s): %s\n%s" % (rc, path, (so + se)[-1500:]))
                continue
            if kid2:
                known_hits[kid2] += 1
            else:
                exit_code = 1
                all_lines.append("VIOLATION property=%s replay=%s" % (prop, path))
                print("violation inv=%s family=%s step=%s ops=%d (minimised with %d executions): %s" % (
                    viol["inv"], fam, viol["step"], len(hist.get("ops", [])), nexec, viol["detail"]))
                print(machine.render(hist))
        # raw count of violations per known finding (not only classes)
        raw_known = collections.Counter()
        raw_unknown = 0
        for rec in tot["violations"]:
            kid = core.match_known(rec["violation"], known)
            if kid:
                raw_known[kid] += 1
            else:
                raw_unknown += 1

        total_eval += tot["evaluations"]
        total_distinct += len(tot["sketches"])
        samples.extend(tot["samples"][:3])
        stats = tot["stats"]
        ev_machines.append(
            {
                "machine": mname,
                "evaluations": tot["evaluations"],
                "not_run_wall_cap": tot["skipped"],
                "abandoned_over_history_wall_limit": sorted(tot.get("timeouts", []))[:50],
                "sim_steps": tot["steps"],
                "distinct_nontrivial_histories": len(tot["sketches"]),
                "distinct_abstract_transitions": len(tot["transitions"]),
                "runs_per_hour": int(tot["evaluations"] / max(elapsed, 1e-6) * 3600),
                "wall_s": round(elapsed, 2),
                "ops": {k[3:]: v for k, v in sorted(stats.items()) if k.startswith("op:")},
                "faults_fired": {k[6:]: v for k, v in sorted(stats.items()) if k.startswith("fault:")},
                "rejected_ops": {k[9:]: v for k, v in sorted(stats.items()) if k.startswith("rejected:")},
                "probes": {k[6:]: v for k, v in sorted(stats.items()) if k.startswith("probe:")},
                "probe_zero": sorted(p for p in getattr(machine, "EXPECTED_PROBES", {}).get(tier, []) if stats.get("probe:" + p, 0) == 0),
                "oracle_comparisons": stats.get("oracle_comparisons", 0),
                "max_observed_difference": tot["maxdiff"],
                "max_difference_within_tolerance_by_regime": dict(sorted(tot["maxdiff_by"].items())),
                "determinism_resample": det,
                "violations_raw_known": dict(raw_known),
                "violations_raw_unknown": raw_unknown,
            }
        )
        for p in ev_machines[-1]["probe_zero"]:
            print("PROBE-ZERO %s (machine %s)" % (p, mname))

    for kid, n in sorted(known_hits.items()):
        e = [x for x in known if x["id"] == kid][0]
        print("KNOWN-FINDING: property=%s %s: %s" % (prop, kid, e["what_fails"]))
    for ln in all_lines:
        print(ln)

    if harness_failed:
        exit_code = 2

    machine0 = core.get_machine(PROPERTY_MACHINES[prop][0])
    evidence = {
        "property_id": prop,
        "tier": tier,
        "seed": seed,
        "level": "exploration",
        "coverage": {
            "evaluations": total_eval,
            "distinct_nontrivial": total_distinct,
            "rule": machine0.RULE,
            "samples": samples[:3] or ["<none>"],
            "machines": ev_machines,
            "components_real": ["gpytorch (working tree of /repo)", "linear_operator", "torch"],
            "components_stubbed": getattr(machine0, "STUBBED", []),
            "not_simulated": ["threads", "clocks/timers", "network", "disk faults (no such seam in this library)"],
            "simulated_time": "none: the library has no clock; progress is counted in simulator steps (sim_steps)",
            "known_findings_hit": dict(known_hits),
        },
        "assumptions": getattr(machine0, "ASSUMPTIONS", []),
        "wall_s": round(time.time() - t0, 2),
        "violations": sum(1 for ln in all_lines),
        "exit_code": exit_code,
    }
    os.makedirs(EVIDENCE_DIR, exist_ok=True)
    with open(os.path.join(EVIDENCE_DIR, prop + ".json"), "w") as f:
        json.dump(evidence, f, indent=1, sort_keys=True, default=str)
    print(
        "%s tier=%s seed=%d: %d histories, %d distinct non-trivial, %d raw violations (%d in known findings), exit %d, %.1fs"
        % (prop, tier, seed, total_eval, total_distinct, total_violations, sum(sum(m["violations_raw_known"].values()) for m in ev_machines), exit_code, time.time() - t0)
    )
    return exit_code


def _slug(s):
    return "".join(c if c.isalnum() or c in "-_" else "_" for c in str(s))[:60]


def main(argv=None):
    ap = argparse.ArgumentParser(prog="vsim")
    sub = ap.add_subparsers(dest="cmd", required=True)
    c = sub.add_parser("check")
    c.add_argument("property")
    c.add_argument("--tier", default="quick", choices=["quick", "thorough"])
    c.add_argument("--seed", type=int, default=int(os.environ.get("VERIF_SEED", "0") or 0))
    c.add_argument("--runs", type=int, default=0)
    c.add_argument("--wall", type=float, default=0)
    c.add_argument("--workers", type=int, default=int(os.environ.get("VSIM_WORKERS", "16")))
    c.add_argument("--no-determinism", action="store_true")
    r = sub.add_parser("replay")
    r.add_argument("path")
    d = sub.add_parser("digest")
    d.add_argument("machine")
    d.add_argument("--tier", default="quick")
    d.add_argument("--seed", type=int, default=0)
    d.add_argument("--indices", default="")
    s = sub.add_parser("selftest-determinism")
    s.add_argument("machine")
    s.add_argument("--tier", default="quick")
    s.add_argument("--seed", type=int, default=0)
    s.add_argument("--n", type=int, default=500)
    args = ap.parse_args(argv)
    if args.cmd == "check":
        return cmd_check(args)
    if args.cmd == "replay":
        return cmd_replay(args)
    if args.cmd == "digest":
        return cmd_digest(args)
    if args.cmd == "selftest-determinism":
        from .selftest import determinism

        return determinism(args)
    return 2
