"""Comparison helpers shared by the machines."""
from __future__ import annotations

import torch

TOL_EXACT = 1e-6
TOL_ITER = 1e-3


def dense(x):
    if torch.is_tensor(x):
        return x
    return x.to_dense()


def observe_dist(dist, want_cov=True):
    """MultivariateNormal -> dict of dense tensors (detached)."""
    out = {"mean": dist.mean.detach().clone()}
    if want_cov:
        out["covar"] = dense(dist.lazy_covariance_matrix).detach().clone()
        out["variance"] = dist.variance.detach().clone()
    return out


def tensor_diff(a, b):
    """Return (ok_shape, max_abs_diff, scale).  NaNs must coincide; +-inf must coincide."""
    if a.shape != b.shape:
        return False, float("inf"), 1.0
    a = a.to(torch.float64)
    b = b.to(torch.float64)
    fa, fb = torch.isfinite(a), torch.isfinite(b)
    if not torch.equal(fa, fb):
        return True, float("inf"), 1.0
    if not torch.equal(torch.isnan(a), torch.isnan(b)):
        return True, float("inf"), 1.0
    if (~fa).any():
        if not torch.equal(a[~fa & ~torch.isnan(a)], b[~fb & ~torch.isnan(b)]):
            return True, float("inf"), 1.0
    if fa.any():
        diff = float((a[fa] - b[fb]).abs().max())
        scale = max(1.0, float(b[fb].abs().max()))
    else:
        diff, scale = 0.0, 1.0
    return True, diff, scale


def compare_obs(oa, ob, tol):
    """Compare two observation dicts.  Returns list of (quantity, diff, scale) that exceed tol, and the max rel diff."""
    bad = []
    mx = 0.0
    for k in sorted(set(oa) | set(ob)):
        if k not in oa or k not in ob:
            bad.append((k, float("inf"), 1.0))
            continue
        ok, diff, scale = tensor_diff(oa[k], ob[k])
        if not ok:
            bad.append((k + "_shape", diff, scale))
            continue
        rel = diff / scale
        if rel == rel and rel != float("inf"):
            mx = max(mx, rel)
        if not (diff <= tol * scale):
            bad.append((k, diff, scale))
    return bad, mx
