"""Family-independent driver: generate and apply public operations to a live model (exact or
variational).  Used by the C03 variational machine and by the C18 crash/restart machine, which
applies the same op record to the original and to the restored object in lock-step."""
from __future__ import annotations

import warnings

import gpytorch
import torch

from . import bundles, compare, core, zoo
from .zoo import FAULTS, SimFault

VAR_KNOBS = [
    "variational_cholesky_jitter",
    "linalg_dtypes",
    "cholesky_jitter",
    "trace_mode",
    "lazily_evaluate_kernels",
    "fast_computations",
    "skip_posterior_variances",
    "max_eager_kernel_size",
    "memory_efficient",
    "use_toeplitz",
    "debug",
]


def gen_var_bundle(rng, allow=None, p_each=0.3):
    b = []

    def maybe(name, kw, p=p_each):
        if (allow is None or name in allow) and rng.random() < p:
            b.append([name, kw])

    maybe("variational_cholesky_jitter", {"double_value": rng.choice([1e-3, 1e-5, 1e-8])}, 0.35)
    maybe("cholesky_jitter", {"double_value": rng.choice([1e-4, 1e-10])}, 0.15)
    maybe("trace_mode", {"state": rng.random() < 0.6}, 0.15)
    maybe("lazily_evaluate_kernels", {"state": rng.random() < 0.5})
    maybe("fast_computations", {"covar_root_decomposition": rng.random() < 0.5, "log_prob": rng.random() < 0.5, "solves": rng.random() < 0.5}, 0.2)
    maybe("max_eager_kernel_size", {"value": rng.choice([0, 1, 512])}, 0.2)
    maybe("memory_efficient", {"state": rng.random() < 0.5}, 0.15)
    maybe("use_toeplitz", {"state": rng.random() < 0.5}, 0.15)
    maybe("debug", {"state": rng.random() < 0.5}, 0.15)
    maybe("skip_posterior_variances", {"state": rng.random() < 0.8}, 0.2)
    rng.shuffle(b)
    return b


class Live:
    """One live model plus the harness-side data it is trained on (variational models hold no data)."""

    def __init__(self, recipe, model=None):
        self.recipe = recipe
        self.family = recipe["family"]
        if model is None:
            torch.manual_seed(recipe["init_seed"])
            if self.family == "variational":
                model = zoo.build_variational(recipe)
            else:
                model = zoo.build_exact(recipe)
            zoo.randomise_parameters(model, recipe["init_seed"])
        self.model = model
        if self.family == "variational":
            self.x, self.y = zoo.variational_data(recipe)

    @property
    def is_var(self):
        return self.family == "variational"


def gen_recipe(rng, families):
    fam = rng.choice(families)
    if fam == "variational":
        return zoo.gen_variational_recipe(rng)
    return zoo.gen_exact_recipe(rng, [fam])


def gen_op(rng, recipe, kind, allow=None, p_each=0.3):
    var = recipe["family"] == "variational"
    if kind == "predict":
        t = rng.randint(1, 4)
        if var:
            b = gen_var_bundle(rng, allow, p_each)
        else:
            joint = recipe["n"] + t
            b = bundles.gen_bundle(rng, joint, allow=allow, p_each=p_each)
        # tb: batch shape of the test inputs (a non-batch model evaluated on a batch of test sets)
        return {"op": "predict", "seed": rng.randrange(1 << 30), "t": t, "tb": rng.choice([[], [], [], [2], [3]]), "bundle": b, "lik": rng.random() < 0.25, "grad": rng.random() < 0.3}
    if kind in ("train", "eval", "kl", "objective"):
        return {"op": kind, "seed": rng.randrange(1 << 30)}
    if kind == "sub_mode":
        tg = ["likelihood", "covar_module", "mean_module"] + (["variational_strategy"] if var else [])
        return {"op": kind, "target": rng.choice(tg), "train": rng.random() < 0.5}
    if kind == "prior_predict":
        return {"op": kind, "seed": rng.randrange(1 << 30), "t": rng.randint(1, 3)}
    if kind == "freeze":
        # requires_grad_ of one parameter (the usual way to hold a hyperparameter / the inducing points fixed)
        # scope: one parameter / every parameter but one / the inducing points (SGPR, variational strategies)
        return {"op": kind, "p": rng.randrange(1 << 10), "flag": rng.random() < 0.25, "scope": rng.choice(["one", "one", "all_but_one", "inducing"])}
    if kind == "train_call":
        return {"op": kind, "seed": rng.randrange(1 << 30), "t": rng.randint(1, 3)}
    if kind == "train_steps":
        return {"op": kind, "k": rng.randint(1, 3), "opt": rng.choice(["sgd", "adam"]), "lr": rng.choice([0.05, 0.2]), "mll": rng.choice(["elbo", "elbo", "pll"])}
    if kind == "perturb":
        return {"op": kind, "seed": rng.randrange(1 << 30), "scope": rng.choice(["all", "all", "hypers"])}
    if kind == "set_train_data":
        kinds = ["same", "targets_only", "inputs_only", "newshape"]
        if recipe["family"] == "grid":
            kinds = ["targets_only"]
        return {"op": kind, "kind": rng.choice(kinds), "seed": rng.randrange(1 << 30), "n": rng.randint(3, 8), "strict": rng.random() < 0.5}
    if kind == "backward":
        return {"op": kind, "seed": rng.randrange(1 << 30), "t": rng.randint(1, 3), "fpv": rng.random() < 0.5}
    if kind == "fantasize":
        return {"op": kind, "seed": rng.randrange(1 << 30), "m": rng.randint(1, 3)}
    if kind == "fault_predict":
        op = gen_op(rng, recipe, "predict", allow, p_each)
        op.update({"op": kind, "site": rng.choice(["kernel", "mean", "forward"]), "k": rng.randint(1, 5)})
        return op
    if kind == "load_state_dict":
        # scope: which part of the state differs from the model's current state (partial changes matter: a cache owner
        # may only look at its own subtree)
        # cold: the checkpoint comes from a model that was never called (variational models: initialisation flag still 0)
        return {"op": kind, "seed": rng.randrange(1 << 30), "scope": rng.choice(["all", "all", "hypers", "variational", "likelihood", "one"]), "pick": rng.randrange(1 << 16), "cold": rng.random() < 0.3}
    if kind == "bad_load_state_dict":
        return {"op": kind, "kind": rng.choice(["missing", "unexpected", "misshaped"]), "seed": rng.randrange(1 << 30), "pick": rng.randrange(1 << 16)}
    raise core.HarnessError("unknown op kind " + kind)


def test_args(recipe, op):
    d = recipe["d"]
    batch = recipe.get("batch", []) if recipe["family"] != "variational" else []
    tb = op.get("tb") or []
    if batch or recipe["family"] == "hadamard":
        tb = []
    xs = zoo.rand(op["seed"], *tb, *batch, op["t"], d) * 1.2 - 0.1
    if recipe.get("one_d") and not tb and not batch and d == 1 and op.get("seed", 0) % 2 == 0:
        xs = xs.squeeze(-1)  # 1-D test inputs
    if recipe["family"] == "hadamard":
        return (xs, torch.randint(0, recipe["tasks"], (op["t"], 1), generator=zoo.gen(op["seed"] + 9)))
    return (xs,)


def set_mode(live, training):
    live.model.train(training)
    lik = getattr(live.model, "likelihood", None)
    if lik is not None:
        lik.train(training)


def objective(live, kind="elbo"):
    """Training objective (to be maximised) on the harness-side / model-side training data."""
    M = live.model
    if live.is_var:
        x, y = live.x, live.y
        cls = gpytorch.mlls.VariationalELBO if kind != "pll" else gpytorch.mlls.PredictiveLogLikelihood
        mll = cls(M.likelihood, M, num_data=y.shape[0])
        return mll(M(x), y).sum()
    mll = gpytorch.mlls.ExactMarginalLogLikelihood(M.likelihood, M)
    return mll(M(*M.train_inputs), M.train_targets).sum()


def predict(model, args, op, through_lik=False):
    torch.manual_seed(op["seed"])
    try:
        with bundles.entered(op.get("bundle", [])):
            if op.get("grad"):
                dist = model(*args)
            else:
                with torch.no_grad():
                    dist = model(*args)
            if through_lik and isinstance(model.likelihood, gpytorch.likelihoods._GaussianLikelihoodBase if hasattr(gpytorch.likelihoods, "_GaussianLikelihoodBase") else gpytorch.likelihoods.GaussianLikelihood):
                dist = model.likelihood(dist)
            return ("ok", compare.observe_dist(dist))
    except SimFault:
        raise
    except Exception as e:  # noqa
        return ("exc", type(e).__name__, str(e)[:200])


def apply(live, op, out, role=""):
    """Apply one op record to `live`.  Returns (status, observation dict).  status in ok / skipped / rejected / fault."""
    M = live.model
    recipe = live.recipe
    k = op["op"]
    obs = {}
    status = "ok"
    # the library's own RNG use sits behind the simulator's seam: every op starts from its recorded seed
    torch.manual_seed(op.get("seed", 20261002))
    if k == "sub_mode":
        getattr(M, op["target"]).train(op["train"])
        return "ok", {}
    if k == "freeze":
        named = sorted(M.named_parameters(), key=lambda t: t[0])
        pick = named[op["p"] % len(named)][0]
        scope = op.get("scope", "one")
        chosen = [n for n, _ in named if "inducing" in n] if scope == "inducing" else []
        if not chosen:
            chosen = [n for n, _ in named if n != pick] if scope == "all_but_one" else [pick]
        for n, prm in named:
            if n in chosen:
                prm.requires_grad_(bool(op["flag"]))
        return "ok", {}
    if k == "predict":
        set_mode(live, False)  # model.eval(); likelihood.eval() - re-synchronises submodules switched on their own
        r = predict(M, test_args(recipe, op), op, op.get("lik", False))
        if r[0] == "ok":
            obs = r[1]
        else:
            status = "rejected"
            obs = {"exc": r[1]}
    elif k == "prior_predict":
        if M.training:
            set_mode(live, False)
        torch.manual_seed(op["seed"])
        args = test_args(recipe, op)
        try:
            with torch.no_grad():
                if live.is_var:
                    d = M(*args, prior=True)
                else:
                    with gpytorch.settings.prior_mode(True):
                        d = M(*args)
            obs = {"prior_mean": d.mean.detach().clone(), "prior_covar": compare.dense(d.lazy_covariance_matrix).detach().clone()}
        except SimFault:
            raise
        except Exception as e:  # noqa  (e.g. prior=True is not supported by strategies that wrap another strategy)
            out.stats["rejected:prior_call_" + type(e).__name__] += 1
            status = "rejected"
            obs = {"exc": type(e).__name__}
    elif k == "train_call":
        # a call in training mode: exact GPs on their training inputs, variational GPs on arbitrary inputs
        set_mode(live, True)
        torch.manual_seed(op["seed"])
        try:
            with torch.no_grad():
                d = M(*test_args(recipe, op)) if live.is_var else M(*M.train_inputs)
            obs = {"train_mean": d.mean.detach().clone(), "train_covar": compare.dense(d.lazy_covariance_matrix).detach().clone()}
        except Exception as e:  # noqa
            status = "rejected"
            obs = {"exc": type(e).__name__}
    elif k == "train":
        set_mode(live, True)
    elif k == "eval":
        set_mode(live, False)
    elif k in ("objective", "kl"):
        set_mode(live, True)
        torch.manual_seed(op["seed"])
        try:
            with torch.no_grad():
                if k == "kl":
                    if not live.is_var:
                        return "skipped", {}
                    M(live.x)
                    v = M.variational_strategy.kl_divergence().sum()
                else:
                    v = objective(live)
            obs = {k: v.detach().clone()}
        except Exception as e:  # noqa
            status = "rejected"
            obs = {"exc": type(e).__name__}
    elif k == "train_steps":
        set_mode(live, True)
        losses = []
        var_params = list(M.variational_parameters()) if live.is_var else []
        natural = live.is_var and recipe.get("dist") in ("natural", "tril_natural") and recipe["strategy"] not in ("orth_decoupled",)
        if natural and var_params:
            hyper = [p for n, p in M.named_hyperparameters()]
            opts = [gpytorch.optim.NGD(var_params, num_data=live.y.shape[0], lr=0.1)]
            if hyper:
                opts.append(torch.optim.Adam(hyper, lr=op["lr"]))
        else:
            opts = [(torch.optim.SGD if op["opt"] == "sgd" else torch.optim.Adam)(M.parameters(), lr=op["lr"])]
        torch.manual_seed(op.get("seed", 0))
        for _ in range(op["k"]):
            for o in opts:
                o.zero_grad()
            try:
                loss = -objective(live, op.get("mll", "elbo"))
                loss.backward()
            except Exception as e:  # noqa  numerical failure of the objective is not judged here
                out.stats["rejected:train_step_" + type(e).__name__] += 1
                status = "rejected"
                break
            if not all(torch.isfinite(p.grad).all() for p in M.parameters() if p.grad is not None):
                out.stats["rejected:train_step_nonfinite_grad"] += 1
                break
            for o in opts:
                o.step()
            losses.append(loss.detach().clone())
        if losses:
            obs = {"losses": torch.stack(losses)}
    elif k == "perturb":
        if M.training:
            if op.get("scope") == "hypers" and live.is_var:
                # only kernel / mean / likelihood hyper-parameters move (e.g. a hyper-parameter search around fixed q(u))
                keep = {n: p.detach().clone() for n, p in M.named_parameters() if n.startswith("variational_strategy.")}
                zoo.randomise_parameters(M, op["seed"], scale=0.5)
                with torch.no_grad():
                    for n, p in M.named_parameters():
                        if n in keep:
                            p.copy_(keep[n])
            else:
                zoo.randomise_parameters(M, op["seed"], scale=0.5)
        else:
            status = "skipped"
    elif k == "set_train_data":
        if live.is_var:
            # variational models hold no data: the analogue is a new minibatch for the objective
            live.x, live.y = zoo.variational_data(recipe, seed=op["seed"])
        else:
            from .m_c03 import new_train_data

            inputs, targets, fixed = new_train_data(recipe, op, M)
            strict = op["strict"] and op["kind"] != "newshape"
            if fixed is not None:
                M.likelihood.noise = fixed
            if inputs is not None and len(inputs) == 1:
                inputs = inputs[0]
            M.set_train_data(inputs=inputs, targets=targets, strict=strict)
    elif k == "backward":
        if M.training:
            set_mode(live, False)
        torch.manual_seed(op["seed"])
        bundle = [["detach_test_caches", {"state": False}]]
        if op.get("fpv"):
            bundle.append(["fast_pred_var", {"state": True}])
        try:
            with bundles.entered(bundle):
                d = M(*test_args(recipe, op))
                (d.mean.sum() + d.variance.sum()).backward()
        except RuntimeError as e:
            out.stats["rejected:backward_" + ("second_time" if "second time" in str(e) else type(e).__name__)] += 1
            status = "rejected"
    elif k == "fantasize":
        if M.training:
            set_mode(live, False)
        try:
            if live.is_var:
                xf = zoo.rand(op["seed"], op["m"], recipe["d"])
                yf = zoo.make_targets(op["seed"] + 1, xf)
                with torch.no_grad():
                    M(xf)
                fm = M.get_fantasy_model(xf, yf)
                torch.manual_seed(op["seed"])
                with torch.no_grad():
                    d = fm(zoo.rand(op["seed"] + 3, 2, recipe["d"]))
                obs = {"fantasy_mean": d.mean.detach().clone()}
            else:
                if M.prediction_strategy is None:
                    # fantasy models need test-independent caches: make a default prediction first
                    with torch.no_grad():
                        M(*test_args(recipe, {"seed": op["seed"] + 11, "t": 2}))
                from .m_c03 import _fantasize

                _fantasize(M, recipe, op)
        except SimFault:
            raise
        except Exception as e:  # noqa
            out.stats["rejected:fantasize_" + type(e).__name__] += 1
            status = "rejected"
    elif k == "fault_predict":
        if M.training:
            set_mode(live, False)
        FAULTS.arm(op["site"], op["k"])
        try:
            predict(M, test_args(recipe, op), op, False)
        except SimFault:
            out.stats["fault:user_module_%s" % op["site"]] += 1
            status = "fault"
        finally:
            FAULTS.disarm()
    elif k in ("load_state_dict", "bad_load_state_dict"):
        donor = Live(recipe).model if live.is_var else zoo.build_exact(recipe, data=_cur_data(M, recipe))
        zoo.randomise_parameters(donor, op["seed"])
        if live.is_var and op.get("cold") and k == "load_state_dict":
            out.stats["probe:load_state_dict_from_never_called_model"] += 1
        elif live.is_var:
            # a donor that has been called once, so that its initialisation flags are set like a trained model's
            donor.train()
            with torch.no_grad():
                donor(live.x)
        else:
            donor.eval()
            try:
                with torch.no_grad():  # lazily created buffers (RFF weights, dynamic grids) exist after one call
                    donor(*test_args(recipe, {"seed": op["seed"] + 1, "t": 2}))
            except Exception:  # noqa
                pass
        sd = dict(donor.state_dict())
        scope = op.get("scope", "all")
        if k == "load_state_dict" and scope != "all":
            cur = {kk: v.detach().clone() for kk, v in M.state_dict().items()}
            pkeys = sorted(n for n, _ in M.named_parameters())
            if scope == "hypers":
                chosen = [kk for kk in pkeys if not kk.startswith("variational_strategy.")]
            elif scope == "variational":
                chosen = [kk for kk in pkeys if kk.startswith("variational_strategy.")]
            elif scope == "likelihood":
                chosen = [kk for kk in pkeys if kk.startswith("likelihood.")]
            else:
                chosen = [pkeys[op.get("pick", 0) % len(pkeys)]] if pkeys else []
            for kk in chosen:
                if kk in sd and sd[kk].shape == cur[kk].shape:
                    cur[kk] = sd[kk].detach().clone()
            sd = cur
        if k == "bad_load_state_dict":
            keys = sorted(sd)
            pick = keys[op["pick"] % len(keys)]
            if op["kind"] == "missing":
                del sd[pick]
            elif op["kind"] == "unexpected":
                sd["covar_module.no_such_parameter"] = torch.zeros(1, dtype=zoo.DT)
            else:
                sd[pick] = torch.zeros(*sd[pick].shape, 3, dtype=sd[pick].dtype)
        try:
            M.load_state_dict(sd)
        except RuntimeError:
            out.stats["fault:failed_strict_load_state_dict"] += 1
            status = "fault"
    else:
        raise core.HarnessError("unknown op " + k)
    return status, obs


def _cur_data(M, recipe):
    lik = M.likelihood
    fixed = lik.noise_covar.noise if recipe["lik"].startswith("fixed") else None
    return {"inputs": M.train_inputs, "targets": M.train_targets, "fixed_noise": fixed}


def module_modes(model):
    """Training flags of the gpytorch modules (kernels, means, likelihoods, strategies, models).  Constraints and their
    transforms are excluded: constraints.softplus is one process-global nn.Softplus instance shared by every constraint
    of every model, so its (meaningless) flag follows whichever model was switched last."""
    return tuple(
        (n, m.training) for n, m in sorted(model.named_modules(), key=lambda kv: kv[0]) if isinstance(m, gpytorch.Module)
    )
